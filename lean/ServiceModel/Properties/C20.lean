import ServiceModel.Proofs.NoPanicMsg
/-!
# C20 — Block processing is deterministic and cannot crash the chain

The model is a pure function of (state, operation), so two executions of one history agree by
construction; that the *code* is such a function (no dependence on process, map iteration order or
time) is established on the code itself: every history of the correspondence run is executed a second
time in a separate process and the full store dumps and balances are compared byte for byte.

What is proved here is the no-panic part, for every reachable state:
* the end of a block never panics;
* no message or keeper call other than bind / update-binding / enable-binding makes the handler panic;
* those three panic exactly when checked `sdk.Int` arithmetic meets an amount of about 2^255 — the
  known finding D9 (baseapp recovers the panic; the state is unchanged).
-/
namespace SM.C20
open SM Map

variable {cfg : Config} {p : Params} {h0 t0 : Int}

/-- End-of-block processing never panics in a reachable state. -/
theorem endblock_never_panics (hc : CfgOK cfg p) {s : State} (hr : Reachable cfg p h0 t0 s) (dt : Int) :
    (endBlock s dt).panic = none := endBlock_nopanic (reachable_inv hc hr) dt

/-- … hence the end-of-block step always succeeds. -/
theorem endblock_step_ok (hc : CfgOK cfg p) {s : State} (hr : Reachable cfg p h0 t0 s) (dt : Int) :
    (step s (.endblock dt)).2.1 = .ok := by
  have h := endblock_never_panics hc hr dt
  simp only [step, validateBasic, exec, Op.isEndblock, h]
  rfl

/-- No message that passes stateless validation, and no keeper entry point, makes the handler panic — except the
    three deposit-carrying binding messages characterised below. -/
theorem only_deposit_messages_can_panic (hc : CfgOK cfg p) {s : State} (hr : Reachable cfg p h0 t0 s) (op : Op)
    (hw : WF s op) (hne : op.isEndblock = false) (hnd : op.isDepositMsg = false) :
    (step s op).2.1.isPanic = false := by
  have h := exec_nopanic (reachable_inv hc hr) op hw hne hnd
  unfold step
  split
  · rfl
  · rw [hne]
    dsimp only
    cases hres : (exec s op).2.1 with
    | ok => simp [hres, Res.isPanic]
    | err e => simp [hres, Res.isPanic]
    | invalid => simp [hres, Res.isPanic]
    | panic m => rw [hres] at h; simp [Res.isPanic] at h

/-- `getMinDeposit` overflows exactly when price × multiple reaches 2^255. -/
theorem minDeposit_none_iff (params : Params) (pr : Pricing) :
    minDeposit params pr = none ↔ pr.base * params.mult ≥ intLimit := by
  unfold minDeposit; dsimp only; split <;> simp_all

/-- D9, bind: the handler panics only if the price text denotes an amount beyond 255 bits, or price × multiple does. -/
theorem bind_panics_only_on_overflow (s : State) (svc : SvcName) (pv o : Addr) (dep : Option Nat) (text : PricingText)
    (qos : Nat) (hp : (bind s svc pv o dep text qos).2.1.isPanic = true) :
    parsePricing text = .overflow ∨ ∃ pr, parsePricing text = .ok pr ∧ pr.base * s.params.mult ≥ intLimit := by
  unfold bind at hp
  split at hp; · simp [fail, Res.isPanic] at hp
  split at hp; · simp [fail, Res.isPanic] at hp
  split at hp; · simp [fail, Res.isPanic] at hp
  dsimp only at hp
  split at hp; · simp [fail, Res.isPanic] at hp
  cases dep with
  | none => simp [fail, Res.isPanic] at hp
  | some d =>
    dsimp only at hp
    split at hp; · simp [fail, Res.isPanic] at hp
    cases hpp : parsePricing text with
    | bad => rw [hpp] at hp; simp [fail, Res.isPanic] at hp
    | overflow => left; rfl
    | ok pr =>
      right
      rw [hpp] at hp; dsimp only at hp
      refine ⟨pr, rfl, ?_⟩
      split at hp; · simp [fail, Res.isPanic] at hp
      cases hmd : minDeposit s.params pr with
      | none => exact (minDeposit_none_iff _ _).mp hmd
      | some md =>
        exfalso
        rw [hmd] at hp; dsimp only at hp
        repeat' split at hp
        all_goals simp [fail, Res.isPanic] at hp

/-- D9, enable: the handler panics only if deposit + top-up reaches 2^255, or the stored price × multiple does. -/
theorem enable_panics_only_on_overflow (s : State) (svc : SvcName) (pv o : Addr) (dep : Option Nat)
    (hp : (enable s svc pv o dep).2.1.isPanic = true) :
    ∃ b, get s.bindings (svc, pv) = some b ∧
      ((dep.isSome ∧ b.deposit + dep.getD 0 ≥ intLimit) ∨ (storedPricing s svc pv).base * s.params.mult ≥ intLimit) := by
  unfold enable at hp
  cases hb : get s.bindings (svc, pv) with
  | none => rw [hb] at hp; simp [fail, Res.isPanic] at hp
  | some b =>
    rw [hb] at hp; dsimp only at hp
    refine ⟨b, rfl, ?_⟩
    split at hp; · simp [fail, Res.isPanic] at hp
    split at hp; · simp [fail, Res.isPanic] at hp
    split at hp
    · left; assumption
    · right
      have hsp : storedPricing s svc pv = (match get s.pricing (svc, pv) with
          | some p => p
          | none => { base := 0, promT := [], promV := [] }) := rfl
      rw [hsp]
      split at hp
      · exact (minDeposit_none_iff _ _).mp (by assumption)
      · exfalso
        repeat' split at hp
        all_goals simp [fail, Res.isPanic] at hp

theorem minCheck_panic {params : Params} {b : Binding} {u : Bool} {pr : Pricing} {r : Res}
    (h : minCheck params b u pr = some r) (hp : r.isPanic = true) : pr.base * params.mult ≥ intLimit := by
  unfold minCheck at h
  by_cases hc : b.avail ∧ u
  · rw [if_pos hc] at h
    cases hmd : minDeposit params pr with
    | none => exact (minDeposit_none_iff _ _).mp hmd
    | some md =>
      rw [hmd] at h; dsimp only at h
      by_cases hlt : b.deposit < md
      · rw [if_pos hlt] at h; injection h with h; subst h; simp [Res.isPanic] at hp
      · rw [if_neg hlt] at h; cases h
  · rw [if_neg hc] at h; cases h

/-- D9, update: the handler panics only if deposit + top-up reaches 2^255, the new price text denotes an amount beyond
    255 bits, or the price in force × multiple reaches 2^255. -/
theorem update_panics_only_on_overflow (s : State) (svc : SvcName) (pv o : Addr) (dep : Option Nat)
    (text : Option PricingText) (qos : Nat) (hp : (update s svc pv o dep text qos).2.1.isPanic = true) :
    ∃ b, get s.bindings (svc, pv) = some b ∧
      ((dep.isSome ∧ b.deposit + dep.getD 0 ≥ intLimit) ∨
       (∃ t, text = some t ∧ parsePricing t = .overflow) ∨
       (∃ pr, newTerms s svc pv text = .ok pr ∧ pr.base * s.params.mult ≥ intLimit)) := by
  unfold update at hp
  cases hb : get s.bindings (svc, pv) with
  | none => rw [hb] at hp; simp [fail, Res.isPanic] at hp
  | some b =>
    rw [hb] at hp; dsimp only at hp
    refine ⟨b, rfl, ?_⟩
    split at hp; · simp [fail, Res.isPanic] at hp
    split at hp; · simp [fail, Res.isPanic] at hp
    split at hp
    · left; assumption
    · right
      cases hnt : newTerms s svc pv text with
      | error r =>
        left
        rw [hnt] at hp; dsimp only at hp
        unfold newTerms at hnt
        cases text with
        | none => simp at hnt
        | some t =>
          refine ⟨t, rfl, ?_⟩
          dsimp only at hnt
          cases hpp : parsePricing t with
          | overflow => rfl
          | bad => rw [hpp] at hnt; simp at hnt; subst hnt; simp [Res.isPanic] at hp
          | ok pr =>
            rw [hpp] at hnt; dsimp only at hnt
            split at hnt
            · simp at hnt; subst hnt; simp [Res.isPanic] at hp
            · cases hnt
      | ok pr =>
        right
        rw [hnt] at hp; dsimp only at hp
        refine ⟨pr, rfl, ?_⟩
        split at hp
        · rename_i r hmc
          exact minCheck_panic hmc hp
        · exfalso
          repeat' split at hp
          all_goals simp [fail, Res.isPanic] at hp

/-- A message whose handler panics leaves no trace: baseapp recovers the panic and discards the cached writes. -/
theorem panic_changes_nothing (s : State) (op : Op) (hne : op.isEndblock = false)
    (hp : (step s op).2.1.isPanic = true) : (step s op).1 = s := by
  apply C08.rejected_changes_nothing s op hne
  intro hok; rw [hok] at hp; simp [Res.isPanic] at hp

end SM.C20
