import ServiceModel.Properties.C03
import ServiceModel.Proofs.NoSlash
import ServiceModel.Proofs.SlashOnce
import ServiceModel.Proofs.OnceRestart
/-!
# C04 — Providers are slashed exactly when they fail a request
-/
namespace SM.C04
open SM

/-- A response slashes exactly when it is accepted with a malformed output: the settlement's effects contain a
    slash iff the output is malformed, and then it is the slash of this request's provider. -/
theorem respond_slashes_iff_malformed {s s1 : State} {r : ReqId} {svc : SvcName} {cons : Addr} {q : Req} {pv : Addr}
    {out : OutKind} {e1 : List Effect} (h : settle s r svc cons q pv out = .ok (s1, e1)) :
    (out = .malformed → ∃ amt, e1.head? = some (.slash r q.prov amt)) ∧
    (out ≠ .malformed → ∀ e, e ∈ e1 → ∀ r2 p2 a, e ≠ .slash r2 p2 a) := by
  unfold settle at h
  split at h
  · rename_i hm
    refine ⟨fun _ => ?_, fun hne => absurd hm hne⟩
    cases hs : slash s r svc q.prov with
    | bankErr => rw [hs] at h; simp at h
    | overflow => rw [hs] at h; simp at h
    | done s2 e2 =>
      rw [hs] at h; dsimp only at h
      cases hb : bankSend s2.bank s2.cfg.escrow cons q.fee with
      | none => rw [hb] at h; simp at h
      | some bank' =>
        rw [hb] at h; simp only [Except.ok.injEq, Prod.mk.injEq] at h
        obtain ⟨_, h2⟩ := h; subst h2
        unfold slash at hs
        cases hbb : Map.get s.bindings (svc, q.prov) with
        | none => rw [hbb] at hs; simp at hs; rw [← hs.2]; exact ⟨0, rfl⟩
        | some b =>
          rw [hbb] at hs; dsimp only at hs
          repeat' split at hs
          all_goals first
            | (simp at hs; done)
            | (injection hs with _ hs2; subst hs2; exact ⟨_, rfl⟩)
  · rename_i hm
    refine ⟨fun he => absurd he hm, fun _ => ?_⟩
    cases ha : addEarned s pv q.fee with
    | none => rw [ha] at h; simp at h
    | some res =>
      rw [ha] at h; simp only [Except.ok.injEq] at h; subst h
      unfold addEarned at ha; dsimp only at ha
      repeat' split at ha
      all_goals first
        | (simp at ha; done)
        | (simp only [Option.some.injEq, Prod.mk.injEq] at ha
           obtain ⟨_, h2⟩ := ha; subst h2
           intro e he r2 p2 a
           simp at he
           try (subst he; simp))

/-- At the end of a request's expiry block: a request made in super mode is not slashed; any other still-pending
    request is (the slash cannot fail in a reachable state: the deposit account is backed, the minimum deposit of an
    available binding does not overflow). -/
theorem expiry_slashes_unless_super (x : Ctx) (s : State) (r : ReqId) (q : Req) (hq : Map.get s.reqs r = some q) :
    (x.super = true → (expireReq x s r).effs = []) ∧
    (x.super = false → ∀ s1 e1, slash s r x.svc q.prov = .done s1 e1 →
        ∃ rest, (expireReq x s r).effs = e1 ++ rest) := by
  unfold expireReq
  rw [hq]; dsimp only
  refine ⟨fun hs => by rw [if_pos hs], fun hs s1 e1 hsl => ?_⟩
  rw [if_neg (by simp [hs]), hsl]
  dsimp only
  unfold refundExpired
  cases bankSend s1.bank s1.cfg.escrow x.cons q.fee <;> exact ⟨_, rfl⟩

/-- In a reachable state a slash never fails. -/
theorem slash_never_fails {s : State} (h : Inv s) (r : ReqId) (svc : SvcName) (pv : Addr)
    (hbind : (Map.get s.bindings (svc, pv)).isSome) : ∃ s1 e1, slash s r svc pv = .done s1 e1 := by
  obtain ⟨b, hb⟩ : ∃ b, Map.get s.bindings (svc, pv) = some b := by
    cases hh : Map.get s.bindings (svc, pv) with
    | none => rw [hh] at hbind; simp at hbind
    | some b => exact ⟨b, rfl⟩
  have hamt : b.deposit * s.params.slash / decUnit ≤ b.deposit := by
    have := h.static.slash_le
    calc b.deposit * s.params.slash / decUnit ≤ b.deposit * decUnit / decUnit :=
          Nat.div_le_div_right (Nat.mul_le_mul_left _ this)
      _ = b.deposit := Nat.mul_div_cancel _ (by decide)
  have hdepbal : b.deposit ≤ balOf s.bank.bal s.cfg.deposit := by
    have hv := Map.valAt_le_total (fun b : Binding => b.deposit) s.bindings (svc, pv)
    rw [valAt_eq_of_get _ _ _ _ hb] at hv
    rw [h.b.backed]; exact hv
  unfold slash
  rw [hb]; dsimp only
  rw [if_neg (by omega)]
  have hburn : ∃ bk, bankBurn s.bank s.cfg.deposit (b.deposit * s.params.slash / decUnit) = some bk := by
    unfold bankBurn; rw [if_neg (by omega)]; exact ⟨_, rfl⟩
  obtain ⟨bk, hbk⟩ := hburn
  rw [hbk]; dsimp only
  by_cases hav : b.avail = true
  · obtain ⟨pr, md, hpr, hmd, _⟩ := h.b.minDep _ b hb hav
    rw [if_pos hav, storedPricing_of_get hpr, hmd]
    exact ⟨_, _, rfl⟩
  · rw [if_neg hav]; exact ⟨_, _, rfl⟩

/-- Each slash removes `⌊current deposit × fraction⌋` from the binding's deposit and destroys it
    (restated from C03: deposit account, recorded deposit and total supply fall by the same amount). -/
theorem slash_amount {s s1 : State} {r : ReqId} {svc : SvcName} {pv : Addr} {e : List Effect} {b : Binding}
    (hb : Map.get s.bindings (svc, pv) = some b) (h : slash s r svc pv = .done s1 e) :
    e = [.slash r pv (b.deposit * s.params.slash / decUnit)] ∧
    s1.bank.supply = s.bank.supply - (b.deposit * s.params.slash / decUnit : Nat) ∧
    (∃ b1, Map.get s1.bindings (svc, pv) = some b1 ∧ b1.deposit = b.deposit - b.deposit * s.params.slash / decUnit) :=
  C03.slash_burns hb h

/-- … and never for any other reason: an operation that is neither a response nor the end of a block produces no
    slash (whatever the state; a rejected operation produces no effect at all). Together with
    `respond_slashes_iff_malformed` and `expiry_slashes_unless_super` this pins every slash to a failed request. -/
theorem no_slash_outside_response_and_expiry (s : State) (op : Op) (hne : op.isEndblock = false)
    (hnr : ∀ r pv c o, op ≠ .respond r pv c o) : ∀ e ∈ (step s op).2.2, e.isSlash = false :=
  step_noSlash s op hne hnr

variable {cfg : Config} {p : Params} {h0 t0 : Int}

/-- Every slash names a failed request: the request in a slash effect was pending before the step and is not pending
    after it (it was answered with a malformed output, or it expired in this end of block). -/
theorem slash_is_for_a_request_just_settled (hc : CfgOK cfg p) {s : State} (hr : Reachable cfg p h0 t0 s) (op : Op)
    (r : ReqId) (pv : Addr) (n : Nat) (he : Effect.slash r pv n ∈ (step s op).2.2) :
    r ∈ s.activeI ∧ r ∉ (step s op).1.activeI :=
  step_slash_pending (reachable_inv hc hr) op _ he r pv n rfl

/-- Once: over every history, a request for which a provider was slashed is never the reason of a second slash —
    it is never pending again (C02), and a slash needs its request pending. -/
theorem request_slashed_at_most_once (hc : CfgOK cfg p) {s s' : State} (hr : Reachable cfg p h0 t0 s) (op : Op)
    (hw : WF s op) (r : ReqId) (pv : Addr) (n : Nat) (he : Effect.slash r pv n ∈ (step s op).2.2)
    (hl : Leads (step s op).1 s') (op' : Op) (pv' : Addr) (n' : Nat) :
    Effect.slash r pv' n' ∉ (step s' op').2.2 := by
  intro he'
  obtain ⟨hact, hgone⟩ := slash_is_for_a_request_just_settled hc hr op r pv n he
  have hsp := spent_leads hc (Reachable.step op hr hw) hl r (spent_of_deactivated (reachable_inv hc hr) op hw r hact hgone)
  have hr' := reachable_of_leads (Reachable.step op hr hw) hl
  exact hsp.1 (slash_is_for_a_request_just_settled hc hr' op' r pv' n' he').1

/-- continuations with restarts stay on a chain with restarts -/
theorem reachableR_of_leadsR {s s' : State} (hr : ReachableR cfg p h0 t0 s) (hl : LeadsR s s') : ReachableR cfg p h0 t0 s' := by
  induction hl with
  | refl s => exact hr
  | step op hw _ ih => exact ih (ReachableR.step op hr hw)
  | restart height time hre _ ih => exact ih (ReachableR.restart height time hr hre)

/-- Once, restarts included: on a chain with any number of zero-height restarts, a request for which a provider was
    slashed is never the reason of a second slash, whatever well-formed operations and further restarts follow (a
    restart itself slashes nobody: the preparation only moves coins of the request escrow). -/
theorem request_slashed_at_most_once_across_restarts (hc : CfgOK cfg p) {s s' : State} (hr : ReachableR cfg p h0 t0 s)
    (op : Op) (hw : WF s op) (r : ReqId) (pv : Addr) (n : Nat) (he : Effect.slash r pv n ∈ (step s op).2.2)
    (hl : LeadsR (step s op).1 s') (op' : Op) (pv' : Addr) (n' : Nat) :
    Effect.slash r pv' n' ∉ (step s' op').2.2 := by
  intro he'
  have hinv := (reachableR_invAll hc hr).inv
  obtain ⟨hact, hgone⟩ := step_slash_pending hinv op _ he r pv n rfl
  have hsp := spent_leadsR hc (ReachableR.step op hr hw) hl r (spent_of_deactivated hinv op hw r hact hgone)
  have hr' := reachableR_of_leadsR (ReachableR.step op hr hw) hl
  exact hsp.1 (step_slash_pending (reachableR_invAll hc hr').inv op' _ he' r pv' n' rfl).1

end SM.C04
