import ServiceModel.Proofs.Reachable
import ServiceModel.Model.Query
import ServiceModel.Proofs.StoreKeys
import ServiceModel.Basic.Scan
/-!
# C17 — Queries return exactly the stored state

`query` (Model/Query.lean) computes each answer the way the keeper does: point lookups, or a scan of a
store range / an index followed by lookups. The theorems say that in every reachable state the answer is
exactly the set of stored records of the query's subject. Both interfaces are tied to `query` by the
correspondence run (ops `query via=grpc|legacy`); that they agree with each other is a consequence of
that tie, not a theorem (the model has one function).
-/
namespace SM.C17
open SM Map

variable {cfg : Config} {p : Params} {h0 t0 : Int}

/-! ### point lookups -/
theorem definition_exact (s : State) (name : SvcName) :
    query s (.definition name) =
      match get s.defs name with | some d => .ok (.defn name d) | none => .error .unknownDefinition := by
  simp only [query]; cases get s.defs name <;> rfl

theorem binding_exact (s : State) (svc : SvcName) (prov : Addr) :
    query s (.binding svc prov) =
      match get s.bindings (svc, prov) with | some b => .ok (.bindings [((svc, prov), b)]) | none => .error .unknownBinding := by
  simp only [query]; cases get s.bindings (svc, prov) <;> rfl

/-- the withdrawal address is the stored one, and the owner itself when none was set -/
theorem withdraw_exact (s : State) (owner : Addr) :
    query s (.withdraw owner) = .ok (.withdraw owner (match get s.withdraw owner with | some a => a | none => owner)) := by
  simp only [query]; cases get s.withdraw owner <;> rfl

theorem context_response_fees_params_exact (s : State) (c : CtxId) (r : ReqId) (prov : Addr) :
    query s (.context c) = .ok (.context c (get s.ctxs c)) ∧
    query s (.response r) = .ok (.response r (get s.resps r)) ∧
    query s (.fees prov) = .ok (.fees prov (match get s.earned prov with | some n => n | none => 0)) ∧
    query s .params = .ok (.params s.params) := by
  refine ⟨rfl, rfl, ?_, rfl⟩
  simp only [query]; cases get s.earned prov <;> rfl

/-! ### a request is rebuilt from its compact record and its context -/
theorem request_reconstructed (hc : CfgOK cfg p) {s : State} (hr : Reachable cfg p h0 t0 s)
    (r : ReqId) (q : Req) (hq : get s.reqs r = some q) :
    ∃ x, get s.ctxs r.ctx = some x ∧ r.batch = x.batch ∧
      query s (.request r) = .ok (.requests [some { id := r, svc := x.svc, prov := q.prov, cons := x.cons, fee := q.fee,
                                                    super := x.super, reqH := q.reqH, expH := q.expH }]) := by
  obtain ⟨x, hx, hb, _⟩ := (reachable_inv hc hr).x.reqCtx r q hq
  refine ⟨x, hx, hb, ?_⟩
  simp only [query, reqView, hq, hx]

/-- an unknown request id yields the zero request (the code ignores `found`) -/
theorem request_unknown (s : State) (r : ReqId) (hq : get s.reqs r = none) :
    query s (.request r) = .ok (.requests [none]) := by
  simp only [query, reqView, hq]

/-! ### listings -/
/-- all bindings of a service: exactly the stored bindings whose key carries that service name -/
theorem bindings_of_service_exact (s : State) (svc : SvcName) :
    ∃ l, query s (.bindings svc "") = .ok (.bindings l) ∧
      ∀ k b, (k, b) ∈ l ↔ (k.1 = svc ∧ get s.bindings k = some b) := by
  refine ⟨(entries s.bindings).filter (fun e => e.1.1 = svc), ?_, ?_⟩
  · simp [query]
  · intro k b
    simp only [List.mem_filter, mem_entries, decide_eq_true_eq]
    exact and_comm

/-- the bindings of a service owned by one owner (answered from the owner index): exactly the stored bindings
    of that service whose owner field is that owner -/
theorem bindings_of_owner_exact (hc : CfgOK cfg p) {s : State} (hr : Reachable cfg p h0 t0 s)
    (svc : SvcName) (owner : Addr) (ho : owner ≠ "") :
    ∃ l, query s (.bindings svc owner) = .ok (.bindings l) ∧
      ∀ k b, (k, b) ∈ l ↔ (k.1 = svc ∧ get s.bindings k = some b ∧ b.owner = owner) := by
  have hb := (reachable_inv hc hr).b
  refine ⟨ownerBindings s owner svc, ?_, ?_⟩
  · simp [query, ho]
  · intro k b
    unfold ownerBindings
    simp only [List.mem_filterMap, List.mem_filter, FSet.mem_elems, decide_eq_true_eq, Option.map_eq_some_iff]
    constructor
    · rintro ⟨⟨o, sv, pv⟩, ⟨hmem, ho1, hs1⟩, b', hget, heq⟩
      dsimp only at ho1 hs1 hget heq
      subst ho1; subst hs1
      obtain ⟨b2, hb2, hown⟩ := (hb.bindIdx o sv pv).mp hmem
      rw [hget] at hb2; injection hb2 with hb2; subst hb2
      injection heq with hk hbb; subst hk; subst hbb
      exact ⟨rfl, hget, hown⟩
    · rintro ⟨hk, hget, hown⟩
      obtain ⟨sv, pv⟩ := k
      dsimp only at hk; subst hk
      exact ⟨(owner, sv, pv), ⟨(hb.bindIdx owner sv pv).mpr ⟨b, hget, hown⟩, rfl, rfl⟩, b, hget, rfl⟩

/-- the pending requests of a binding (answered from the index 0x14): exactly the pending requests whose context
    names that service and whose provider is that provider, each rebuilt correctly, and no zero request among them -/
theorem pending_requests_exact (hc : CfgOK cfg p) {s : State} (hr : Reachable cfg p h0 t0 s)
    (svc : SvcName) (prov : Addr) :
    ∃ l, query s (.requests svc prov) = .ok (.requests l) ∧ none ∉ l ∧
      ∀ v, some v ∈ l ↔ (v.id ∈ s.activeI ∧ reqView s v.id = some v ∧ v.svc = svc ∧ v.prov = prov) := by
  have hx := (reachable_inv hc hr).x
  refine ⟨((FSet.elems s.activeB).filter (fun e => e.1 = svc ∧ e.2.1 = prov)).map (fun e => reqView s e.2.2.2), rfl, ?_, ?_⟩
  · simp only [List.mem_map, List.mem_filter, FSet.mem_elems, decide_eq_true_eq, not_exists, not_and]
    rintro ⟨sv, pv, e, r⟩ ⟨hmem, _⟩
    obtain ⟨_, q, x, hq, hxx, _⟩ := (hx.activeMirror sv pv e r).mp hmem
    unfold reqView; dsimp only; rw [hq]; dsimp only; rw [hxx]; simp
  · intro v
    simp only [List.mem_map, List.mem_filter, FSet.mem_elems, decide_eq_true_eq]
    constructor
    · rintro ⟨⟨sv, pv, e, r⟩, ⟨hmem, hs, hp⟩, hv⟩
      dsimp only at hs hp hv
      obtain ⟨hact, q, x, hq, hxx, e1, e2, _⟩ := (hx.activeMirror sv pv e r).mp hmem
      have hid : v.id = r := by
        unfold reqView at hv; rw [hq] at hv; dsimp only at hv; rw [hxx] at hv
        injection hv with hv; rw [← hv]
      have hvs : v.svc = x.svc ∧ v.prov = q.prov := by
        unfold reqView at hv; rw [hq] at hv; dsimp only at hv; rw [hxx] at hv
        injection hv with hv; rw [← hv]; exact ⟨rfl, rfl⟩
      rw [hid]
      exact ⟨hact, hv, by rw [hvs.1, ← e1, hs], by rw [hvs.2, ← e2, hp]⟩
    · rintro ⟨hact, hv, hs, hp⟩
      obtain ⟨q, hq⟩ := Option.isSome_iff_exists.mp (hx.activeReq v.id hact)
      obtain ⟨x, hxx, _, _⟩ := hx.reqCtx v.id q hq
      have hfields : v.svc = x.svc ∧ v.prov = q.prov := by
        have hv' := hv
        unfold reqView at hv'; rw [hq] at hv'; dsimp only at hv'; rw [hxx] at hv'
        injection hv' with hv'; rw [← hv']; exact ⟨rfl, rfl⟩
      refine ⟨(svc, prov, q.expH, v.id), ⟨?_, rfl, rfl⟩, hv⟩
      exact (hx.activeMirror svc prov q.expH v.id).mpr
        ⟨hact, q, x, hq, hxx, by rw [← hs, hfields.1], by rw [← hp, hfields.2], rfl⟩

/-- the requests of a batch: exactly the stored request records whose id carries that context and batch number,
    each rebuilt correctly, and no zero request among them -/
theorem requests_of_batch_exact (hc : CfgOK cfg p) {s : State} (hr : Reachable cfg p h0 t0 s) (c : CtxId) (batch : Nat) :
    ∃ l, query s (.requestsByCtx c batch) = .ok (.requests l) ∧ none ∉ l ∧
      ∀ v, some v ∈ l ↔ ((get s.reqs v.id).isSome ∧ v.id.ctx = c ∧ v.id.batch = batch ∧ reqView s v.id = some v) := by
  have hx := (reachable_inv hc hr).x
  refine ⟨((entries s.reqs).filter (fun e => e.1.ctx = c ∧ e.1.batch = batch)).map (fun e => reqView s e.1), rfl, ?_, ?_⟩
  · simp only [List.mem_map, List.mem_filter, decide_eq_true_eq, not_exists, not_and]
    rintro ⟨r, q⟩ ⟨hmem, _⟩
    have hq := (mem_entries s.reqs r q).mp hmem
    obtain ⟨x, hxx, _, _⟩ := hx.reqCtx r q hq
    unfold reqView; dsimp only; rw [hq]; dsimp only; rw [hxx]; simp
  · intro v
    simp only [List.mem_map, List.mem_filter, decide_eq_true_eq]
    constructor
    · rintro ⟨⟨r, q⟩, ⟨hmem, h1, h2⟩, hv⟩
      dsimp only at h1 h2 hv
      have hq := (mem_entries s.reqs r q).mp hmem
      obtain ⟨x, hxx, _, _⟩ := hx.reqCtx r q hq
      have hid : v.id = r := by
        unfold reqView at hv; rw [hq] at hv; dsimp only at hv; rw [hxx] at hv
        injection hv with hv; rw [← hv]
      rw [hid]
      exact ⟨by rw [hq]; rfl, h1, h2, hv⟩
    · rintro ⟨hsome, h1, h2, hv⟩
      obtain ⟨q, hq⟩ := Option.isSome_iff_exists.mp hsome
      exact ⟨(v.id, q), ⟨(mem_entries s.reqs v.id q).mpr hq, h1, h2⟩, hv⟩

/-- the responses of a batch: exactly the stored responses whose request id carries that context and batch number -/
theorem responses_of_batch_exact (s : State) (c : CtxId) (batch : Nat) :
    ∃ l, query s (.responses c batch) = .ok (.responses l) ∧
      ∀ r x, (r, x) ∈ l ↔ (get s.resps r = some x ∧ r.ctx = c ∧ r.batch = batch) := by
  refine ⟨(entries s.resps).filter (fun e => e.1.ctx = c ∧ e.1.batch = batch), rfl, ?_⟩
  intro r x
  simp only [List.mem_filter, mem_entries, decide_eq_true_eq]

/-- queries do not depend on anything but the stored records: they are a function of the state alone and
    (being pure) cannot change it; the harness checks the latter on the real store after every query -/
theorem query_is_function_of_state (s1 s2 : State) (q : Query)
    (h : s1.defs = s2.defs ∧ s1.bindings = s2.bindings ∧ s1.ownerBind = s2.ownerBind ∧ s1.withdraw = s2.withdraw ∧
         s1.ctxs = s2.ctxs ∧ s1.reqs = s2.reqs ∧ s1.activeB = s2.activeB ∧ s1.resps = s2.resps ∧
         s1.earned = s2.earned ∧ s1.params = s2.params) :
    query s1 q = query s2 q := by
  obtain ⟨h1, h2, h3, h4, h5, h6, h7, h8, h9, h10⟩ := h
  cases q <;> simp only [query, ownerBindings, reqView, h1, h2, h3, h4, h5, h6, h7, h8, h9, h10]

/-- the schema query answers from the module's two constants alone: the pricing schema for the name `pricing`, the
    result schema for `result` (in any letter case), a refusal for every other name — in every state, reachable or not -/
theorem schema_exact (s : State) (name : String) :
    query s (.schema name) =
      (if name.toLower = "pricing" then .ok (.schema .pricing)
       else if name.toLower = "result" then .ok (.schema .result) else .error .invalidSchemaName) := rfl

/-- The model state is a faithful store. `Map` is an association list with first-match lookup; the module's store
    holds one value per key. In every state of every chain (any operations, any number of restarts) every record map has
    one record per key and every index set lists each entry once (`Keys1`), so a scan of a record kind — what the
    listing queries, the export and the raw-list monitors walk over — is exactly what the point lookups see:
    `(k, v)` is an entry of the list iff `get k = some v`. -/
theorem store_has_one_record_per_key {s : State} (hr : ReachableR cfg p h0 t0 s) :
    Keys1 s ∧
    (∀ r q, (r, q) ∈ s.reqs ↔ Map.get s.reqs r = some q) ∧
    (∀ r q, (r, q) ∈ s.resps ↔ Map.get s.resps r = some q) ∧
    (∀ k b, (k, b) ∈ s.bindings ↔ Map.get s.bindings k = some b) ∧
    (∀ c x, (c, x) ∈ s.ctxs ↔ Map.get s.ctxs c = some x) ∧
    (∀ n d, (n, d) ∈ s.defs ↔ Map.get s.defs n = some d) := by
  have k := keys1_reachableR hr
  have key : ∀ {κ ν : Type} [DecidableEq κ] (m : Map κ ν), Map.NodupKeys m → ∀ a b, (a, b) ∈ m ↔ Map.get m a = some b := by
    intro κ ν _ m hm a b
    have := Map.mem_entries m a b
    rw [Map.entries_of_nodupKeys m hm] at this
    exact this
  exact ⟨k, key _ k.reqs, key _ k.resps, key _ k.bindings, key _ k.ctxs, key _ k.defs⟩

end SM.C17
