import ServiceModel.Keys.Scans
import ServiceModel.Keys.ModelIds
import ServiceModel.Keys.Examples
import ServiceModel.Proofs.IssueSpec
/-!
# C18 — Identifiers and store keys are unambiguous

Only the property theorems; definitions and lemmas are in `ServiceModel/Keys/*`.
The key theorems are about the layouts in `Keys/Generated.lean`, which `factgen` rewrites
from `types/keys.go`, `types/invocation.go` and `keeper/*.go` on every run of the pipeline.

Hypotheses that appear below:
* `BechOK bech` — `sdk.AccAddress.String()` is injective and its text has no `0x00` byte;
* `WFEnv sh e` — the fields have the shapes of `Keys.sh`: names and denominations without `0x00`,
  owners and consumers 20 bytes (E1), context ids 40, request ids 58 bytes, tx hashes 32 bytes,
  providers of ANY length;
* integer ranges of the Go types.
Theorems named `…_needs_…` are negative results: the hypothesis in the name cannot be dropped.
-/
namespace SM.C18
open SM SM.Keys SM.Keys.Generated

/-! ## identifiers -/

/-- The hand-written id functions are the ones the translator read in `types/invocation.go`. -/
theorem ids_match_source (bech : Bytes → Bytes) (e : Env) :
    (∀ hash idx, encode bech GenerateRequestContextID ((e.setB F.txHash hash).setN F.msgIndex (u64 idx))
        = genCtxId hash idx) ∧
    (∀ ctx batch height index, encode bech GenerateRequestID
        ((((e.setB F.requestContextID ctx).setN F.requestContextBatchCounter batch).setN F.requestHeight (u64 height)).setN
          F.batchRequestIndex (u16 index)) = genReqId ctx batch height index) ∧
    (∀ id, splitBy SplitRequestContextID id = (splitCtxId id).map (fun r => [.b r.1, .i r.2])) ∧
    (∀ id, splitBy SplitRequestID id = (splitReqId id).map (fun r => [.b r.1, .i r.2.1, .i r.2.2.1, .i r.2.2.2])) ∧
    ContextIDLen = 40 ∧ RequestIDLen = 58 :=
  ⟨genCtxId_matches_generated bech e, genReqId_matches_generated bech e, splitCtxId_matches_generated,
   splitReqId_matches_generated, rfl, rfl⟩

/-- Context ids have 40 bytes. -/
theorem ctx_id_length (hash : Bytes) (idx : Int) (h : hash.length = 32) : (genCtxId hash idx).length = ContextIDLen :=
  genCtxId_length hash idx h

/-- A context id decodes to exactly the hash and message index it was built from (every int64 index). -/
theorem ctx_id_roundtrip (hash : Bytes) (idx : Int) (h : hash.length = 32) (h1 : -2 ^ 63 ≤ idx) (h2 : idx < 2 ^ 63) :
    splitCtxId (genCtxId hash idx) = some (hash, idx) :=
  split_gen_ctx hash idx h h1 h2

/-- Distinct (hash, index) give distinct context ids. -/
theorem ctx_id_injective (h₁ h₂ : Bytes) (i₁ i₂ : Int) (l₁ : h₁.length = 32) (l₂ : h₂.length = 32)
    (a₁ : -2 ^ 63 ≤ i₁) (b₁ : i₁ < 2 ^ 63) (a₂ : -2 ^ 63 ≤ i₂) (b₂ : i₂ < 2 ^ 63)
    (h : genCtxId h₁ i₁ = genCtxId h₂ i₂) : h₁ = h₂ ∧ i₁ = i₂ :=
  genCtxId_inj h₁ h₂ i₁ i₂ l₁ l₂ a₁ b₁ a₂ b₂ h

/-- `SplitRequestContextID` fails exactly on wrong lengths, and whatever it returns rebuilds the id. -/
theorem ctx_id_split_total (id : Bytes) :
    (id.length ≠ 40 → splitCtxId id = none) ∧
    (∀ hash idx, splitCtxId id = some (hash, idx) →
      genCtxId hash idx = id ∧ hash.length = 32 ∧ -2 ^ 63 ≤ idx ∧ idx < 2 ^ 63) :=
  ⟨fun h => by unfold splitCtxId; rw [if_neg h], fun hash idx h => gen_split_ctx id hash idx h⟩

/-- Request ids have 58 bytes. -/
theorem req_id_length (ctx : Bytes) (batch : Nat) (height index : Int) (h : ctx.length = 40) :
    (genReqId ctx batch height index).length = RequestIDLen :=
  genReqId_length ctx batch height index h

/-- A request id decodes to exactly the context, batch counter (uint64), issue height (int64) and
    index (int16) it was built from — boundary values included. -/
theorem req_id_roundtrip (ctx : Bytes) (batch : Nat) (height index : Int) (h : ctx.length = 40)
    (hb : batch < 2 ^ 64) (h1 : -2 ^ 63 ≤ height) (h2 : height < 2 ^ 63)
    (i1 : -2 ^ 15 ≤ index) (i2 : index < 2 ^ 15) :
    splitReqId (genReqId ctx batch height index) = some (ctx, batch, height, index) :=
  split_gen_req ctx batch height index h hb h1 h2 i1 i2

/-- Distinct (context, batch, height, index) give distinct request ids. -/
theorem req_id_injective (c₁ c₂ : Bytes) (b₁ b₂ : Nat) (h₁ h₂ i₁ i₂ : Int)
    (lc₁ : c₁.length = 40) (lc₂ : c₂.length = 40) (lb₁ : b₁ < 2 ^ 64) (lb₂ : b₂ < 2 ^ 64)
    (ha₁ : -2 ^ 63 ≤ h₁) (hb₁ : h₁ < 2 ^ 63) (ha₂ : -2 ^ 63 ≤ h₂) (hb₂ : h₂ < 2 ^ 63)
    (ia₁ : -2 ^ 15 ≤ i₁) (ib₁ : i₁ < 2 ^ 15) (ia₂ : -2 ^ 15 ≤ i₂) (ib₂ : i₂ < 2 ^ 15)
    (h : genReqId c₁ b₁ h₁ i₁ = genReqId c₂ b₂ h₂ i₂) : c₁ = c₂ ∧ b₁ = b₂ ∧ h₁ = h₂ ∧ i₁ = i₂ :=
  genReqId_inj c₁ c₂ b₁ b₂ h₁ h₂ i₁ i₂ lc₁ lc₂ lb₁ lb₂ ha₁ hb₁ ha₂ hb₂ ia₁ ib₁ ia₂ ib₂ h

/-- `SplitRequestID` fails exactly on wrong lengths, and whatever it returns rebuilds the id: every
    58-byte string is the id of exactly one (context, batch, height, index). -/
theorem req_id_split_total (id : Bytes) :
    (id.length ≠ 58 → splitReqId id = none) ∧
    (∀ ctx batch height index, splitReqId id = some (ctx, batch, height, index) →
      genReqId ctx batch height index = id ∧ ctx.length = 40 ∧ batch < 2 ^ 64 ∧
      (-2 ^ 63 ≤ height ∧ height < 2 ^ 63) ∧ (-2 ^ 15 ≤ index ∧ index < 2 ^ 15)) :=
  ⟨fun h => by unfold splitReqId; rw [if_neg h], fun c b h i hs => gen_split_req id c b h i hs⟩

/-- The identifiers of the state-machine model (tuples of naturals) are, for in-range tuples, the
    bytes `GenerateRequestContextID` / `GenerateRequestID` produce. -/
theorem model_ids_are_generated (r : ReqId) (h : ReqId.InRange r) :
    encCtx r.ctx = genCtxId (beN 32 r.ctx.hash) (r.ctx.idx : Int) ∧
    encReq r = genReqId (encCtx r.ctx) r.batch (r.height : Int) (r.index : Int) ∧
    (encCtx r.ctx).length = 40 ∧ (encReq r).length = 58 :=
  ⟨encCtx_eq_gen r.ctx h.1, encReq_eq_gen r h, encCtx_length _, encReq_length _⟩

/-- Distinct model identifiers have distinct bytes. -/
theorem model_ids_injective :
    (∀ a b : CtxId, CtxId.InRange a → CtxId.InRange b → encCtx a = encCtx b → a = b) ∧
    (∀ a b : ReqId, ReqId.InRange a → ReqId.InRange b → encReq a = encReq b → a = b) := by
  constructor
  · intro a b ha hb h
    exact CtxId.num_inj a b ha hb (by rw [← fromBE_encCtx a ha, ← fromBE_encCtx b hb, h])
  · intro a b ha hb h
    exact ReqId.num_inj a b ha hb (by rw [← fromBE_encReq a ha, ← fromBE_encReq b hb, h])

/-- The store iterates keys in byte order; on ids that is the order `CtxId.le` / `ReqId.le` in which
    the model iterates (context, then batch, then height, then index). -/
theorem id_byte_order_is_model_order :
    (∀ a b : CtxId, CtxId.InRange a → CtxId.InRange b → lexLe (encCtx a) (encCtx b) = a.le b) ∧
    (∀ a b : ReqId, ReqId.InRange a → ReqId.InRange b → lexLe (encReq a) (encReq b) = a.le b) := by
  constructor
  · intro a b ha hb
    rw [Bool.eq_iff_iff, lexLe_iff _ _ (by rw [encCtx_length, encCtx_length]), fromBE_encCtx a ha, fromBE_encCtx b hb,
      CtxId.le_iff_num a b ha hb]
  · intro a b ha hb
    rw [Bool.eq_iff_iff, lexLe_iff _ _ (by rw [encReq_length, encReq_length]), fromBE_encReq a ha, fromBE_encReq b hb,
      ReqId.le_iff_num a b ha hb]

/-- A request's id records its position: the `k`-th request written when a batch is issued
    (`issuedPairs … 0` is what `InitiateRequests` writes, see `issueReqs_reqs`; the issue event lists
    the requests in this order, C06 `issued_requests_are_exactly`) goes to the `k`-th provider and has
    the id (context, new batch counter, current height, `k`); decoding its bytes with
    `SplitRequestID` returns exactly these four. -/
theorem request_id_records_position (c : CtxId) (x : Ctx) (height : Int) (el : List (Addr × Nat)) (k : Nat)
    (hk : k < el.length)
    (hr : ReqId.InRange { ctx := c, batch := x.batch + 1, height := height.toNat, index := k }) :
    ∃ q, (issuedPairs c x height el 0)[k]? =
        some ({ ctx := c, batch := x.batch + 1, height := height.toNat, index := k }, q) ∧
      q.prov = (el[k]).1 ∧
      splitReqId (encReq { ctx := c, batch := x.batch + 1, height := height.toNat, index := k }) =
        some (encCtx c, x.batch + 1, (height.toNat : Int), (k : Int)) := by
  have hpos : ∀ (el : List (Addr × Nat)) (i k : Nat) (hk : k < el.length),
      ∃ q, (issuedPairs c x height el i)[k]? =
        some ({ ctx := c, batch := x.batch + 1, height := height.toNat, index := i + k }, q) ∧ q.prov = (el[k]).1 := by
    intro el
    induction el with
    | nil => intro i k hk; simp at hk
    | cons hd t ih =>
      intro i k hk
      obtain ⟨p, price⟩ := hd
      cases k with
      | zero =>
        exact ⟨{ prov := p, fee := if x.super then 0 else price, reqH := height, expH := height + x.timeout },
          by simp [issuedPairs], rfl⟩
      | succ k =>
        obtain ⟨q, h1, h2⟩ := ih (i + 1) k (by simpa using hk)
        refine ⟨q, ?_, by simpa using h2⟩
        simp only [issuedPairs, List.getElem?_cons_succ, h1]
        congr 3
        omega
  obtain ⟨q, h1, h2⟩ := hpos el 0 k hk
  refine ⟨q, by simpa using h1, h2, ?_⟩
  obtain ⟨hc, hb, hh, hi⟩ := hr
  rw [encReq_eq_gen _ ⟨hc, hb, hh, hi⟩]
  have hb' : x.batch + 1 < 2 ^ 64 := hb
  have hh' : height.toNat < 2 ^ 63 := hh
  have hi' : k < 2 ^ 15 := hi
  exact split_gen_req _ _ _ _ (encCtx_length c) hb' (by omega) (by omega) (by omega) (by omega)

/-! ## keys of different records never coincide -/

/-- Keys of different record kinds never coincide: the 19 key builders start with pairwise
    distinct bytes (`0x01 … 0x09, 0x10 … 0x19`). -/
theorem record_kinds_disjoint (bech : Bytes → Bytes) :
    (keyBuilders.map (·.layout)).Pairwise (fun k₁ k₂ => ∀ e₁ e₂, encode bech k₁ e₁ ≠ encode bech k₂ e₂) :=
  distinctHeads_sound _ (by decide)

/-- Under the hypotheses `sh`, every key builder except `GetEarnedFeesKey` is injective in the
    fields it writes (`FieldsEq`: equal byte fields, equal integers modulo 2^64) … -/
theorem key_builders_injective {bech : Bytes → Bytes} (hb : BechOK bech) (k : Fn) (hk : k ∈ keyBuilders)
    (hne : k.layout ≠ GetEarnedFeesKey) (e₁ e₂ : Env) (w₁ : WFEnv sh e₁) (w₂ : WFEnv sh e₂) :
    encode bech k.layout e₁ = encode bech k.layout e₂ ↔ FieldsEq k.layout e₁ e₂ := by
  have hall : keyBuilders.all (fun k => k.layout == GetEarnedFeesKey || decodable sh k.layout) = true := by decide
  have := List.all_eq_true.mp hall k hk
  simp only [Bool.or_eq_true, beq_iff_eq] at this
  rcases this with h | h
  · exact absurd h hne
  · exact key_injective hb k.layout h e₁ e₂ w₁ w₂

/-- … and `GetEarnedFeesKey(provider, denom)` = `0x18 ‖ provider ‖ denom` is injective once the
    denomination is fixed (the module pays fees in one denomination) … -/
theorem earnedFeesKey_injective_fixed_denom (bech : Bytes → Bytes) (e₁ e₂ : Env)
    (hd : e₁.b F.denom = e₂.b F.denom) :
    encode bech GetEarnedFeesKey e₁ = encode bech GetEarnedFeesKey e₂ ↔ e₁.b F.provider = e₂.b F.provider := by
  simp only [GetEarnedFeesKey, encode, Seg.val, List.append_nil, List.cons_append, List.nil_append,
    List.cons.injEq, true_and, hd]
  exact ⟨List.append_cancel_right, fun h => by rw [h]⟩

/-- … or once providers have 20 bytes. -/
theorem earnedFeesKey_injective_provider20 {bech : Bytes → Bytes} (hb : BechOK bech) (e₁ e₂ : Env)
    (w₁ : WFEnv shProv20 e₁) (w₂ : WFEnv shProv20 e₂) :
    encode bech GetEarnedFeesKey e₁ = encode bech GetEarnedFeesKey e₂ ↔ FieldsEq GetEarnedFeesKey e₁ e₂ :=
  key_injective hb GetEarnedFeesKey (by decide) e₁ e₂ w₁ w₂

/-- NEGATIVE: with providers of any length and two denominations the earned-fees key is ambiguous:
    (provider `01`, denom `stake`) and (provider `01 73`, denom `take`) have the same key. -/
theorem earnedFeesKey_needs_fixed_denom (bech : Bytes → Bytes) :
    ∃ e₁ e₂, WFEnv sh e₁ ∧ WFEnv sh e₂ ∧ encode bech GetEarnedFeesKey e₁ = encode bech GetEarnedFeesKey e₂ ∧
      e₁.b F.provider ≠ e₂.b F.provider :=
  ⟨((Env.default sh).setB F.provider [0x01]).setB F.denom [0x73, 0x74, 0x61, 0x6b, 0x65],
   ((Env.default sh).setB F.provider [0x01, 0x73]).setB F.denom [0x74, 0x61, 0x6b, 0x65],
   WFEnv_setB (WFEnv_setB (WFEnv_default sh) _ _ (by decide)) _ _ (by decide),
   WFEnv_setB (WFEnv_setB (WFEnv_default sh) _ _ (by decide)) _ _ (by decide), rfl, by decide⟩

/-- `GetOwnerEarnedFeesKey(owner, denom)` ignores its `denom`: an owner has ONE earnings record,
    whatever the denomination (sound only because fees are paid in one denomination). -/
theorem ownerEarnedFeesKey_ignores_denom (bech : Bytes → Bytes) (e : Env) (d : Bytes) :
    encode bech GetOwnerEarnedFeesKey (e.setB F.denom d) = encode bech GetOwnerEarnedFeesKey e := by
  simp [GetOwnerEarnedFeesKey, encode, Seg.val, Env.setB, F.owner, F.denom]

/-- NEGATIVE: without E1 (owners of any length) `GetOwnerProviderKey(owner, provider)` =
    `0x05 ‖ owner ‖ provider` is ambiguous: (owner `01`, provider `02 03`) vs (owner `01 02`, provider `03`). -/
theorem ownerProviderKey_needs_owner20 (bech : Bytes → Bytes) :
    ∃ e₁ e₂, WFEnv shNoE1 e₁ ∧ WFEnv shNoE1 e₂ ∧ encode bech GetOwnerProviderKey e₁ = encode bech GetOwnerProviderKey e₂ ∧
      e₁.b F.owner ≠ e₂.b F.owner :=
  ⟨((Env.default shNoE1).setB F.owner [0x01]).setB F.provider [0x02, 0x03],
   ((Env.default shNoE1).setB F.owner [0x01, 0x02]).setB F.provider [0x03],
   WFEnv_setB (WFEnv_setB (WFEnv_default _) _ _ (by decide)) _ _ (by decide),
   WFEnv_setB (WFEnv_setB (WFEnv_default _) _ _ (by decide)) _ _ (by decide), rfl, by decide⟩

/-- NEGATIVE: without E1 `GetOwnerServiceBindingKey(owner, serviceName, provider)` =
    `0x03 ‖ owner ‖ serviceName ‖ 0x00 ‖ provider` is ambiguous: (owner `01`, name `ab`) vs (owner `01 61`, name `b`). -/
theorem ownerServiceBindingKey_needs_owner20 (bech : Bytes → Bytes) :
    ∃ e₁ e₂, WFEnv shNoE1 e₁ ∧ WFEnv shNoE1 e₂ ∧
      encode bech GetOwnerServiceBindingKey e₁ = encode bech GetOwnerServiceBindingKey e₂ ∧
      e₁.b F.owner ≠ e₂.b F.owner :=
  ⟨((Env.default shNoE1).setB F.owner [0x01]).setB F.serviceName [0x61, 0x62],
   ((Env.default shNoE1).setB F.owner [0x01, 0x61]).setB F.serviceName [0x62],
   WFEnv_setB (WFEnv_setB (WFEnv_default _) _ _ (by decide)) _ _ (by decide),
   WFEnv_setB (WFEnv_setB (WFEnv_default _) _ _ (by decide)) _ _ (by decide), rfl, by decide⟩

/-! ## every prefix scan returns exactly the records of its subject -/

/-- The scan table is the list of `sdk.KVStorePrefixIterator` calls of `keeper/*.go` (same prefix
    layout, same filter, both directions), every scanned key function is a key builder, and the
    filter of the filtered scans compares the key remainder with the stored coin's denomination. -/
theorem scan_table_is_the_code : sitesCovered = true ∧ filterIsDenom = true := by decide

/-- Every prefix scan the module performs is exact under the hypotheses `sh`:
    * plain scans: `prefix(subject) <+: key(record)` iff the record's subject fields are the subject
      (for the 8 whole-prefix scans the subject is empty: every record of the kind is returned);
    * the earned-fees scan WITH its filter (remainder of the key = the record's denomination):
      iff the record's provider is the subject provider — for providers of ANY length;
    * the three by-context scans: iff the record's request id decodes to the subject context and batch.
    Service names that are prefixes of each other (`a`, `ab`) are told apart by the `0x00` separator. -/
theorem all_scans_exact {bech : Bytes → Bytes} (hb : BechOK bech) (x : Scan) (hx : x ∈ scanTable) :
    x.Exact bech sh := by
  have hall : scanTable.all (Scan.ok sh) = true := by decide
  exact Scan.ok_sound hb (by decide) (by decide) x (List.all_eq_true.mp hall x hx)

/-- No scan returns a record of another kind: the prefix of a scan is never a prefix of a key made
    by a builder other than the scan's own. -/
theorem scans_return_no_foreign_kind (bech : Bytes → Bytes) (x : Scan) (hx : x ∈ scanTable) (k : Fn) (hk : k ∈ keyBuilders)
    (hne : k.layout ≠ x.key) (e₁ e₂ : Env) : ¬ encode bech x.sub e₁ <+: encode bech k.layout e₂ := by
  have hall : noForeign = true := by decide
  unfold noForeign at hall
  have := List.all_eq_true.mp (List.all_eq_true.mp hall x hx) k hk
  simp only [Bool.or_eq_true, beq_iff_eq] at this
  rcases this with h | h
  · exact absurd h hne
  · exact (headsDiffer_sound h e₁ e₂).1

/-- The bindings-of-a-service scan spelled out: `GetBindingsSubspace(name)` is a prefix of
    `GetServiceBindingKey(name', provider)` iff `name = name'`, for NUL-free names and every provider. -/
theorem bindings_scan_exact {bech : Bytes → Bytes} (hb : BechOK bech) (name name' provider : Bytes)
    (hn : (0 : UInt8) ∉ name) (hn' : (0 : UInt8) ∉ name') :
    encode bech GetBindingsSubspace ((Env.default sh).setB F.serviceName name) <+:
      encode bech GetServiceBindingKey (((Env.default sh).setB F.serviceName name').setB F.provider provider)
    ↔ name = name' := by
  rw [scanOK_sound hb GetBindingsSubspace GetServiceBindingKey (by decide) _ _
    (WFEnv_setName (WFEnv_default sh) _ hn) (WFEnv_setProvider (WFEnv_setName (WFEnv_default sh) _ hn') _)]
  simp [FieldsEq, GetBindingsSubspace, Env.setB, F.serviceName, F.provider]

/-- The earned-fees scan spelled out (repository fix D6): the record `(provider', denom)` passes the
    prefix test AND the remainder filter for the subject `provider` iff `provider' = provider` —
    for providers of every length. -/
theorem earnedFees_scan_exact_with_filter {bech : Bytes → Bytes} (hb : BechOK bech) (provider provider' denom : Bytes)
    (hd : (0 : UInt8) ∉ denom) :
    (encode bech GetEarnedFeesSubspace ((Env.default sh).setB F.provider provider) <+:
        encode bech GetEarnedFeesKey (((Env.default sh).setB F.provider provider').setB F.denom denom) ∧
      (encode bech GetEarnedFeesKey (((Env.default sh).setB F.provider provider').setB F.denom denom)).drop
        (encode bech GetEarnedFeesSubspace ((Env.default sh).setB F.provider provider)).length = denom)
    ↔ provider = provider' := by
  have h := scanFilteredOK_sound hb GetEarnedFeesSubspace GetEarnedFeesKey (by decide)
    ((Env.default sh).setB F.provider provider) (((Env.default sh).setB F.provider provider').setB F.denom denom)
    (WFEnv_setProvider (WFEnv_default sh) _) (WFEnv_setDenom (WFEnv_setProvider (WFEnv_default sh) _) _ hd)
  have hsuf : encode bech (List.drop GetEarnedFeesSubspace.length GetEarnedFeesKey)
      (((Env.default sh).setB F.provider provider').setB F.denom denom) = denom := by
    simp [GetEarnedFeesSubspace, GetEarnedFeesKey, encode, Seg.val, Env.setB, F.denom]
  rw [hsuf] at h
  rw [h]
  simp [FieldsEq, GetEarnedFeesSubspace, Env.setB, F.provider, F.denom]

/-- NEGATIVE (defect D6 before its repair): WITHOUT the filter the earned-fees scan is not exact for
    variable-length providers: the prefix of provider `01` matches the record of provider `01 02`. -/
theorem earnedFees_scan_needs_filter (bech : Bytes → Bytes) :
    ∃ e₁ e₂, WFEnv sh e₁ ∧ WFEnv sh e₂ ∧
      encode bech GetEarnedFeesSubspace e₁ <+: encode bech GetEarnedFeesKey e₂ ∧ e₁.b F.provider ≠ e₂.b F.provider :=
  ⟨(Env.default sh).setB F.provider [0x01],
   ((Env.default sh).setB F.provider [0x01, 0x02]).setB F.denom [0x73, 0x74, 0x61, 0x6b, 0x65],
   WFEnv_setB (WFEnv_default sh) _ _ (by decide),
   WFEnv_setB (WFEnv_setB (WFEnv_default sh) _ _ (by decide)) _ _ (by decide),
   ⟨[0x02, 0x73, 0x74, 0x61, 0x6b, 0x65], rfl⟩, by decide⟩

/-- NEGATIVE: the three scans whose prefix ends in a raw owner address (`GetOwnerProvidersSubspace`,
    `GetOwnerEarnedFeesSubspace`, and — through the name that follows — `GetOwnerBindingsSubspace`)
    need E1: with owners of any length they are rejected by the check, and owner `01` sees the
    provider / earnings records of owner `01 02`. -/
theorem owner_scans_need_owner20 (bech : Bytes → Bytes) :
    (scanTable.filter (fun x => !(x.ok shNoE1))).map (·.sub) =
      [GetOwnerBindingsSubspace, GetOwnerProvidersSubspace, GetOwnerEarnedFeesSubspace] ∧
    (∃ e₁ e₂, WFEnv shNoE1 e₁ ∧ WFEnv shNoE1 e₂ ∧
      encode bech GetOwnerProvidersSubspace e₁ <+: encode bech GetOwnerProviderKey e₂ ∧ e₁.b F.owner ≠ e₂.b F.owner) ∧
    (∃ e₁ e₂, WFEnv shNoE1 e₁ ∧ WFEnv shNoE1 e₂ ∧
      encode bech GetOwnerEarnedFeesSubspace e₁ <+: encode bech GetOwnerEarnedFeesKey e₂ ∧ e₁.b F.owner ≠ e₂.b F.owner) ∧
    (∃ e₁ e₂, WFEnv shNoE1 e₁ ∧ WFEnv shNoE1 e₂ ∧
      encode bech GetOwnerBindingsSubspace e₁ <+: encode bech GetOwnerServiceBindingKey e₂ ∧ e₁.b F.owner ≠ e₂.b F.owner) :=
  ⟨by decide,
   ⟨(Env.default shNoE1).setB F.owner [0x01], ((Env.default shNoE1).setB F.owner [0x01, 0x02]).setB F.provider [0x03],
    WFEnv_setB (WFEnv_default _) _ _ (by decide), WFEnv_setB (WFEnv_setB (WFEnv_default _) _ _ (by decide)) _ _ (by decide),
    ⟨[0x02, 0x03], rfl⟩, by decide⟩,
   ⟨(Env.default shNoE1).setB F.owner [0x01], (Env.default shNoE1).setB F.owner [0x01, 0x02],
    WFEnv_setB (WFEnv_default _) _ _ (by decide), WFEnv_setB (WFEnv_default _) _ _ (by decide), ⟨[0x02], rfl⟩, by decide⟩,
   ⟨((Env.default shNoE1).setB F.owner [0x01]).setB F.serviceName [0x61],
    ((Env.default shNoE1).setB F.owner [0x01, 0x61]).setB F.serviceName [],
    WFEnv_setB (WFEnv_setB (WFEnv_default _) _ _ (by decide)) _ _ (by decide),
    WFEnv_setB (WFEnv_setB (WFEnv_default _) _ _ (by decide)) _ _ (by decide), ⟨[], rfl⟩, by decide⟩⟩

/-! ## the hypotheses are satisfiable (non-vacuity) -/

/-- `BechOK` has a model (two non-zero nibble bytes per byte): the key theorems are not vacuous. -/
example : ∃ bech, BechOK bech := ⟨hexish, hexish_ok⟩

/-- well-formed environments exist, with providers of any length (here 1 and 21 bytes) -/
example : WFEnv sh (((Env.default sh).setB F.provider [0x01]).setB F.serviceName [0x61]) ∧
    WFEnv sh ((Env.default sh).setB F.provider (List.replicate 21 0x07)) :=
  ⟨WFEnv_setName (WFEnv_setProvider (WFEnv_default sh) _) _ (by decide), WFEnv_setProvider (WFEnv_default sh) _⟩

/-- names that are prefixes of each other: the bindings scan of `a` does not return a binding of `ab`,
    and does return the binding of `a` -/
example :
    ¬ (encode hexish GetBindingsSubspace ((Env.default sh).setB F.serviceName [0x61]) <+:
        encode hexish GetServiceBindingKey (((Env.default sh).setB F.serviceName [0x61, 0x62]).setB F.provider [0x01])) ∧
    (encode hexish GetBindingsSubspace ((Env.default sh).setB F.serviceName [0x61]) <+:
        encode hexish GetServiceBindingKey (((Env.default sh).setB F.serviceName [0x61]).setB F.provider [0x01])) := by
  constructor
  · rw [bindings_scan_exact hexish_ok _ _ _ (by decide) (by decide)]; decide
  · rw [bindings_scan_exact hexish_ok _ _ _ (by decide) (by decide)]

/-- boundary values: the round trip at the extreme int64 / uint64 / int16 values -/
example : splitReqId (genReqId (List.replicate 40 0xff) (2 ^ 64 - 1) (-2 ^ 63) (-2 ^ 15)) =
    some (List.replicate 40 0xff, 2 ^ 64 - 1, -2 ^ 63, -2 ^ 15) :=
  req_id_roundtrip _ _ _ _ (by simp) (by omega) (by omega) (by omega) (by omega) (by omega)

end SM.C18
