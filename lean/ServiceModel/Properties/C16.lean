import ServiceModel.Proofs.Reachable
import ServiceModel.Proofs.Finished
import ServiceModel.Proofs.Restart
import ServiceModel.Proofs.MonitorSound2
/-!
# C16 — Finished batches and contexts leave nothing behind
-/
namespace SM.C16
open SM

variable {cfg : Config} {p : Params} {h0 t0 : Int}

/-- No orphans: every request record belongs to the current batch of an existing context (with its expiry pending). -/
theorem no_orphan_requests (hc : CfgOK cfg p) {s : State} (hr : Reachable cfg p h0 t0 s) (r : ReqId) (q : Req)
    (hq : Map.get s.reqs r = some q) :
    ∃ x, Map.get s.ctxs r.ctx = some x ∧ r.batch = x.batch ∧ Map.get s.expH r.ctx = some q.expH :=
  (reachable_inv hc hr).x.reqCtx r q hq

/-- No response without its request; an answered request is not pending. -/
theorem no_orphan_responses (hc : CfgOK cfg p) {s : State} (hr : Reachable cfg p h0 t0 s) (r : ReqId)
    (hp : (Map.get s.resps r).isSome) : (Map.get s.reqs r).isSome ∧ r ∉ s.activeI :=
  (reachable_inv hc hr).x.respReq r hp

/-- No pending-request marker without its request. -/
theorem no_orphan_markers (hc : CfgOK cfg p) {s : State} (hr : Reachable cfg p h0 t0 s) (r : ReqId)
    (ha : r ∈ s.activeI) : (Map.get s.reqs r).isSome :=
  (reachable_inv hc hr).x.activeReq r ha

/-- The two pending-request indexes list the same requests (and the binding index carries the request's own data). -/
theorem indexes_agree (hc : CfgOK cfg p) {s : State} (hr : Reachable cfg p h0 t0 s) (svc : SvcName) (pv : Addr) (e : Int) (r : ReqId) :
    (svc, pv, e, r) ∈ s.activeB ↔
      (r ∈ s.activeI ∧ ∃ q x, Map.get s.reqs r = some q ∧ Map.get s.ctxs r.ctx = some x ∧ svc = x.svc ∧ pv = q.prov ∧ e = q.expH) :=
  (reachable_inv hc hr).x.activeMirror svc pv e r

/-- Clean-up law: after the expiry handler of a batch, no request, response or marker of that context is left. -/
theorem expiry_cleans {s : State} (h : Inv s) (c : CtxId) (hq : (s.height, c) ∈ s.expQ) (hnp : (expireBatch s c).panic = none) :
    (∀ r, r.ctx = c → Map.get (expireBatch s c).s.reqs r = none) ∧
    (∀ r, r.ctx = c → r ∉ (expireBatch s c).s.activeI) := by
  have hinv := expireBatch_inv s c h hnp
  have hp := (expireBatch_ptrs s c h hnp).2 c
  rw [if_pos ⟨rfl, hq⟩] at hp
  have hnoreq : ∀ r, r.ctx = c → Map.get (expireBatch s c).s.reqs r = none := by
    intro r hrc
    cases hq : Map.get (expireBatch s c).s.reqs r with
    | none => rfl
    | some q =>
      obtain ⟨_, _, _, he⟩ := hinv.x.reqCtx r q hq
      rw [hrc, hp] at he; simp at he
  refine ⟨hnoreq, fun r hrc ha => ?_⟩
  have := hinv.x.activeReq r ha
  rw [hnoreq r hrc] at this; simp at this

/-- A context that has finished — killed, or running but one-shot, or running with its total reached — is removed
    by the expiry handler of its batch (together with the batch's records, `expiry_cleans`); any other context (paused,
    or running and repeated with batches to come) stays, with the same state and counter and its batch completed. -/
theorem finished_context_removed_with_its_batch (hc : CfgOK cfg p) {s : State} (hr : Reachable cfg p h0 t0 s)
    (c : CtxId) (x : Ctx) (hq : (s.height, c) ∈ s.expQ) (hx : Map.get s.ctxs c = some x) :
    (x.finished → Map.get (expireBatch s c).s.ctxs c = none) ∧
    (¬ x.finished → ∃ y, Map.get (expireBatch s c).s.ctxs c = some y ∧ y.bstate = .completed ∧ y.state = x.state ∧
      y.batch = x.batch) :=
  expireBatch_ctx_fate s c x (reachable_inv hc hr) hq hx (expireBatch_nopanic (reachable_inv hc hr) c)

/-- No orphans in any state of a chain that goes through any number of zero-height restarts (the import starts with no
    request, response or marker at all): every request record belongs to the current batch of an existing context, every
    response has its request, every marker its request, and the two pending-request indexes list the same requests. -/
theorem no_orphans_across_restarts (hc : CfgOK cfg p) {s : State} (hr : ReachableR cfg p h0 t0 s) :
    (∀ r q, Map.get s.reqs r = some q →
      ∃ x, Map.get s.ctxs r.ctx = some x ∧ r.batch = x.batch ∧ Map.get s.expH r.ctx = some q.expH) ∧
    (∀ r, (Map.get s.resps r).isSome → (Map.get s.reqs r).isSome ∧ r ∉ s.activeI) ∧
    (∀ r, r ∈ s.activeI → (Map.get s.reqs r).isSome) ∧
    (∀ svc pv e r, (svc, pv, e, r) ∈ s.activeB ↔
      (r ∈ s.activeI ∧ ∃ q x, Map.get s.reqs r = some q ∧ Map.get s.ctxs r.ctx = some x ∧ svc = x.svc ∧ pv = q.prov ∧ e = q.expH)) :=
  let h := (reachableR_invAll hc hr).inv.x
  ⟨h.reqCtx, h.respReq, h.activeReq, h.activeMirror⟩

/-- The executable monitor `requests` (no orphan request, response or marker; the two pending-request indexes agree),
    evaluated by the check on every state decoded from the implementation's trace, is implied by the invariants on every
    chain with any number of restarts. -/
theorem orphan_monitor_implied (hc : CfgOK cfg p) {s : State} (hr : ReachableR cfg p h0 t0 s) :
    Mon.requests s = [] := (scheduling_monitors_quiet_on_chains_with_restarts hc hr).2

end SM.C16
