import ServiceModel.Properties.C08
import ServiceModel.Proofs.Once
import ServiceModel.Proofs.OnceRestart
/-!
# C02 — Each paid request is settled exactly once, to the right party
-/
namespace SM.C02
open SM

/-- An accepted response with a well-formed (or absent) output: the tax `⌊fee × rate⌋` goes to the fee collector,
    the rest is added to the provider's earnings; nothing goes back to the consumer. -/
theorem accepted_response_pays_provider {s s1 : State} {r : ReqId} {svc : SvcName} {cons : Addr} {q : Req} {pv : Addr}
    {out : OutKind} {e1 : List Effect} (hout : out ≠ .malformed) (h : settle s r svc cons q pv out = .ok (s1, e1)) :
    e1 = (if q.fee * s.params.tax / decUnit = 0 then [] else [.transfer s.cfg.escrow s.cfg.collector (q.fee * s.params.tax / decUnit)]) ∧
    s1.earned = addTo s.earned pv (q.fee - q.fee * s.params.tax / decUnit) ∧
    q.fee * s.params.tax / decUnit ≤ q.fee := by
  unfold settle at h
  rw [if_neg hout] at h
  cases ha : addEarned s pv q.fee with
  | none => rw [ha] at h; simp at h
  | some res =>
    rw [ha] at h; simp only [Except.ok.injEq] at h; subst h
    unfold addEarned at ha; dsimp only at ha
    cases hb : bankSend s.bank s.cfg.escrow s.cfg.collector (q.fee * s.params.tax / decUnit) with
    | none => rw [hb] at ha; simp at ha
    | some bank' =>
      rw [hb] at ha; dsimp only at ha
      split at ha
      · simp at ha
      · rename_i hle
        simp only [Option.some.injEq, Prod.mk.injEq] at ha
        obtain ⟨h1, h2⟩ := ha; subst h1; subst h2
        exact ⟨rfl, rfl, by omega⟩

/-- An accepted response with a malformed output: the provider is slashed and the whole fee returns to the consumer;
    the provider earns nothing. -/
theorem malformed_response_refunds_consumer {s s1 : State} {r : ReqId} {svc : SvcName} {cons : Addr} {q : Req} {pv : Addr}
    {e1 : List Effect} (h : settle s r svc cons q pv .malformed = .ok (s1, e1)) :
    s1.earned = s.earned ∧ s1.ownerEarned = s.ownerEarned ∧
    (q.fee ≠ 0 → .transfer s.cfg.escrow cons q.fee ∈ e1) := by
  unfold settle at h
  rw [if_pos rfl] at h
  cases hs : slash s r svc q.prov with
  | bankErr => rw [hs] at h; simp at h
  | overflow => rw [hs] at h; simp at h
  | done s2 e2 =>
    rw [hs] at h; dsimp only at h
    cases hb : bankSend s2.bank s2.cfg.escrow cons q.fee with
    | none => rw [hb] at h; simp at h
    | some bank' =>
      rw [hb] at h; simp only [Except.ok.injEq, Prod.mk.injEq] at h
      obtain ⟨h1, h2⟩ := h; subst h1; subst h2
      have hcfg := slash_cfg hs
      rcases slash_shape hs with h2 | ⟨b2, b', h2⟩
      · subst h2
        refine ⟨rfl, rfl, fun hne => ?_⟩
        simp [hne]
      · subst h2
        refine ⟨rfl, rfl, fun hne => ?_⟩
        simp [hne]

/-- A request that is still pending when its expiry block ends gets its whole fee back to the consumer (unless it
    was made in super mode, which carries no fee): in a reachable state the refund cannot fail. -/
theorem expired_request_refunds_consumer (x : Ctx) (s : State) (r : ReqId) (q : Req) (h : Inv s)
    (hq : Map.get s.reqs r = some q) (hx : Map.get s.ctxs r.ctx = some x) (hact : r ∈ s.activeI)
    (hsuper : x.super = false) (hfee : q.fee ≠ 0) (hnp : (expireReq x s r).panic = none) :
    .transfer s.cfg.escrow x.cons q.fee ∈ (expireReq x s r).effs := by
  have hfeeAt : feeAt s.reqs r = q.fee := by unfold feeAt; rw [hq]
  have hge : q.fee ≤ balOf s.bank.bal s.cfg.escrow := by
    have := feeAt_le_feeSum s.reqs s.activeI r hact
    have := h.m.escrow
    rw [hfeeAt] at *; omega
  unfold expireReq at hnp ⊢
  rw [hq] at hnp ⊢; dsimp only at hnp ⊢
  rw [if_neg (by simp [hsuper])] at hnp ⊢
  have hre : ∀ (s1 : State) (e1 : List Effect), s1.cfg = s.cfg →
      balOf s1.bank.bal s.cfg.escrow = balOf s.bank.bal s.cfg.escrow →
      .transfer s.cfg.escrow x.cons q.fee ∈ (refundExpired s1 e1 x q r).effs := by
    intro s1 e1 hcfg hesc
    unfold refundExpired
    rw [hcfg]
    cases hb : bankSend s1.bank s.cfg.escrow x.cons q.fee with
    | none =>
      have := (bankSend_some_iff s1.bank s.cfg.escrow x.cons q.fee).mpr (by rw [hesc]; exact hge)
      rw [hb] at this; simp at this
    | some bank' => simp [hfee]
  cases hs : slash s r x.svc q.prov with
  | overflow => rw [hs] at hnp; simp at hnp
  | bankErr => dsimp only; exact hre s [] rfl rfl
  | done s1 e1 => dsimp only; exact hre s1 e1 (slash_cfg hs) (slash_escrow h.static hs)

/-- A consumer is debited at batch start by exactly the sum of the fees of the requests issued for it in that batch. -/
theorem batch_debit_is_sum_of_fees (c : CtxId) (x : Ctx) (height : Int) (el : List (Addr × Nat)) (i : Nat) :
    ((issuedPairs c x height el i).map (fun pq => pq.2.fee)).sum = if x.super then 0 else sumPrices el := by
  induction el generalizing i with
  | nil => simp [issuedPairs, sumPrices]
  | cons hd t ih =>
    obtain ⟨p, price⟩ := hd
    simp only [issuedPairs, List.map_cons, List.sum_cons, ih (i + 1)]
    by_cases hs : x.super <;> simp [hs, sumPrices]

/-- an accepted response needs the pending marker -/
theorem accepted_response_was_pending (s : State) (r : ReqId) (pv : Addr) (code : Nat) (out : OutKind)
    (hok : (respond s r pv code out).2.1 = .ok) : r ∈ s.activeI := by
  unfold respond at hok
  cases hq : Map.get s.reqs r with
  | none => rw [hq] at hok; simp [fail] at hok
  | some q =>
    rw [hq] at hok; dsimp only at hok
    cases hx : Map.get s.ctxs r.ctx with
    | none => rw [hx] at hok; simp [fail] at hok
    | some x =>
      rw [hx] at hok; dsimp only at hok
      split at hok; · simp [fail] at hok
      split at hok; · simp [fail] at hok
      rename_i _ hin
      simpa using hin

/-- At most once: a settlement needs the pending marker and removes it, so a settled request cannot be settled again:
    a second response is rejected, and the expiry handler only visits pending requests. -/
theorem settled_request_not_settled_again (s : State) (r : ReqId) (pv : Addr) (code : Nat) (out : OutKind)
    (pv2 : Addr) (code2 : Nat) (out2 : OutKind)
    (hok : (respond s r pv code out).2.1 = .ok) :
    (respond (respond s r pv code out).1 r pv2 code2 out2).2.1 ≠ .ok := by
  obtain ⟨hact, _⟩ := C08.accepted_response_deactivates s r pv code out hok
  intro h2
  have := accepted_response_was_pending _ r pv2 code2 out2 h2
  rw [hact, FSet.mem_rem] at this
  exact this.2 rfl

variable {cfg : Config} {p : Params} {h0 t0 : Int}

/-- Exactly once over a whole history: a request that stopped being pending in some step (it was answered, or it
    expired — the only two settlements) is never pending again, whatever well-formed operations follow: new pending
    requests are only created by the new-batch handler with a batch number above the context's counter, the counter
    never decreases, and a context id is never used twice. -/
theorem settled_request_never_pending_again (hc : CfgOK cfg p) {s s' : State} (hr : Reachable cfg p h0 t0 s)
    (op : Op) (hw : WF s op) (r : ReqId) (hact : r ∈ s.activeI) (hgone : r ∉ (step s op).1.activeI)
    (hl : Leads (step s op).1 s') : r ∉ s'.activeI :=
  (spent_leads hc (Reachable.step op hr hw) hl r (spent_of_deactivated (reachable_inv hc hr) op hw r hact hgone)).1

/-- … hence no later response to it is ever accepted (and the expiry handler, which only visits pending requests,
    never settles it either): each request is settled at most once in every history. -/
theorem settled_request_never_answered_again (hc : CfgOK cfg p) {s s' : State} (hr : Reachable cfg p h0 t0 s)
    (op : Op) (hw : WF s op) (r : ReqId) (hact : r ∈ s.activeI) (hgone : r ∉ (step s op).1.activeI)
    (hl : Leads (step s op).1 s') (pv : Addr) (code : Nat) (out : OutKind) :
    (respond s' r pv code out).2.1 ≠ .ok :=
  fun h => settled_request_never_pending_again hc hr op hw r hact hgone hl (accepted_response_was_pending s' r pv code out h)

/-! ### the same over chains that go through zero-height restarts -/
/-- Exactly once, restarts included: on a chain that has gone through any number of restarts, a request that stopped
    being pending in some step is never pending again, whatever well-formed operations **and further restarts**
    follow (`LeadsR`) — a context comes back from a restart with the batch counter it had, nothing is pending on the
    restarted chain, and used context ids stay used (E7; the ghost set `usedIds` is carried over by `restart`). -/
theorem settled_request_never_pending_again_across_restarts (hc : CfgOK cfg p) {s s' : State}
    (hr : ReachableR cfg p h0 t0 s) (op : Op) (hw : WF s op) (r : ReqId) (hact : r ∈ s.activeI)
    (hgone : r ∉ (step s op).1.activeI) (hl : LeadsR (step s op).1 s') : r ∉ s'.activeI :=
  (spent_leadsR hc (ReachableR.step op hr hw) hl r
    (spent_of_deactivated (reachableR_invAll hc hr).inv op hw r hact hgone)).1

/-- A request that is pending when the chain is restarted — the zero-height preparation returns its fee to the
    consumer (`C19.prep_refunds_every_pending_fee`) — is never pending on the restarted chain, now or later, and no
    response to it is ever accepted there: the refund is its one settlement. -/
theorem request_pending_at_restart_is_settled_for_good (hc : CfgOK cfg p) {s s1 s' : State}
    (hr : ReachableR cfg p h0 t0 s) {height time : Int} (hre : restart s height time = some s1) (r : ReqId)
    (hact : r ∈ s.activeI) (hl : LeadsR s1 s') (pv : Addr) (code : Nat) (out : OutKind) :
    r ∉ s'.activeI ∧ (respond s' r pv code out).2.1 ≠ .ok := by
  have hsp := spent_leadsR hc (ReachableR.restart height time hr hre) hl r
    (spent_of_pending_at_restart (reachableR_invAll hc hr) hre r hact)
  exact ⟨hsp.1, fun h => hsp.1 (accepted_response_was_pending s' r pv code out h)⟩

end SM.C02
