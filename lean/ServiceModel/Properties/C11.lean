import ServiceModel.Proofs.Reachable
import ServiceModel.Proofs.Eventually
import ServiceModel.Proofs.Restart
import ServiceModel.Proofs.MonitorSound2
/-!
# C11 — A running context is never stranded
-/
namespace SM.C11
open SM

variable {cfg : Config} {p : Params} {h0 t0 : Int}

/-- The two queues and their per-context pointers mirror each other: no context has two events of the same kind. -/
theorem queues_mirror_pointers (hc : CfgOK cfg p) {s : State} (hr : Reachable cfg p h0 t0 s) :
    (∀ h c, (h, c) ∈ s.newQ ↔ Map.get s.newH c = some h) ∧ (∀ h c, (h, c) ∈ s.expQ ↔ Map.get s.expH c = some h) :=
  ⟨(reachable_inv hc hr).x.newMirror, (reachable_inv hc hr).x.expMirror⟩

/-- Scheduled events never lie in the past and never refer to a missing context. -/
theorem events_not_past_and_context_exists (hc : CfgOK cfg p) {s : State} (hr : Reachable cfg p h0 t0 s) :
    (∀ c h, Map.get s.newH c = some h → s.height ≤ h ∧ (Map.get s.ctxs c).isSome) ∧
    (∀ c h, Map.get s.expH c = some h → s.height ≤ h ∧ (Map.get s.ctxs c).isSome) :=
  ⟨(reachable_inv hc hr).x.newFuture, (reachable_inv hc hr).x.expFuture⟩

/-- Every running context has exactly one pending scheduled event: its next batch or the expiry of its current batch. -/
theorem running_has_exactly_one_event (hc : CfgOK cfg p) {s : State} (hr : Reachable cfg p h0 t0 s)
    (c : CtxId) (x : Ctx) (hx : Map.get s.ctxs c = some x) (hrun : x.state = .running) :
    ((Map.get s.newH c).isSome ∧ Map.get s.expH c = none) ∨ (Map.get s.newH c = none ∧ (Map.get s.expH c).isSome) := by
  have h := (reachable_inv hc hr).x
  rcases h.runningQ c x hx hrun with h1 | h1
  · left
    refine ⟨h1, ?_⟩
    rcases h.single c with h2 | h2
    · rw [h2] at h1; simp at h1
    · exact h2
  · right
    refine ⟨?_, h1⟩
    rcases h.single c with h2 | h2
    · exact h2
    · rw [h2] at h1; simp at h1

/-- Every pending request belongs to the current batch of an existing context whose pending expiry is at the
    request's expiration height — so the end of that block will expire (and refund) it unless it is answered first. -/
theorem pending_request_wellformed (hc : CfgOK cfg p) {s : State} (hr : Reachable cfg p h0 t0 s)
    (r : ReqId) (hact : r ∈ s.activeI) :
    ∃ q x, Map.get s.reqs r = some q ∧ Map.get s.ctxs r.ctx = some x ∧ r.batch = x.batch ∧
      Map.get s.expH r.ctx = some q.expH ∧ (q.expH, r.ctx) ∈ s.expQ ∧ s.height ≤ q.expH := by
  have h := (reachable_inv hc hr).x
  cases hq : Map.get s.reqs r with
  | none => have := h.activeReq r hact; rw [hq] at this; simp at this
  | some q =>
    obtain ⟨x, hx, hb, he⟩ := h.reqCtx r q hq
    exact ⟨q, x, rfl, hx, hb, he, (h.expMirror _ _).mpr he, (h.expFuture _ _ he).1⟩

/-- The next end-of-block at a scheduled height handles the entry: after an end of block nothing remains
    scheduled at the height that just ended. -/
theorem nothing_left_at_ended_height (hc : CfgOK cfg p) {s : State} (hr : Reachable cfg p h0 t0 s) (dt : Int)
    (hnp : (endBlock s dt).panic = none) :
    (∀ c, Map.get (endBlock s dt).s.newH c ≠ some s.height) ∧ (∀ c, Map.get (endBlock s dt).s.expH c ≠ some s.height) := by
  have h := reachable_inv hc hr
  unfold endBlock at hnp ⊢
  dsimp only at hnp ⊢
  rcases Option.eq_none_or_eq_some (foldH expireBatch s (queuedAt s.expQ s.height)).panic with hp1 | ⟨m, hp1⟩
  · simp only [hp1] at hnp ⊢
    obtain ⟨i1, i2, i3⟩ := expirePhase s.height _ s h rfl
      (fun c hc => (mem_queuedAt _ _ _).mpr ((h.x.expMirror s.height c).mpr hc)) hp1
    rcases Option.eq_none_or_eq_some
        (foldH newBatch (foldH expireBatch s (queuedAt s.expQ s.height)).s
          (queuedAt (foldH expireBatch s (queuedAt s.expQ s.height)).s.newQ
            (foldH expireBatch s (queuedAt s.expQ s.height)).s.height)).panic with hp2 | ⟨m, hp2⟩
    · simp only [hp2] at hnp ⊢
      obtain ⟨j1, j2, j3, j4⟩ := newPhase s.height _ _ i1 i2
        (fun c hc => (mem_queuedAt _ _ _).mpr (by rw [i2]; exact (i1.x.newMirror s.height c).mpr hc)) i3 hp2
      exact ⟨j3, j4⟩
    · simp only [hp2] at hnp; cases hnp
  · simp only [hp1] at hnp; cases hnp

/-- When block `H` ends, no request whose expiry height is `H` is pending any more: it was expired (slashed and
    refunded, C02/C04) by that very end of block unless it had been answered before. -/
theorem pending_request_gone_after_its_expiry_block (hc : CfgOK cfg p) {s : State} (hr : Reachable cfg p h0 t0 s)
    (dt : Int) (r : ReqId) (q : Req) (hq : Map.get s.reqs r = some q) (he : q.expH = s.height) :
    r ∉ (endBlock s dt).s.activeI := expiry_block_clears s dt (reachable_inv hc hr) r q hq he

/-- "Eventually answered or expired", over every history: along every well-formed continuation, a request that is
    still pending has not passed its expiry height (fixed when it was issued) … -/
theorem pending_request_never_outlives_expiry (hc : CfgOK cfg p) {s s' : State} (hr : Reachable cfg p h0 t0 s)
    (hl : Leads s s') (r : ReqId) (q : Req) (hact : r ∈ s.activeI) (hq : Map.get s.reqs r = some q)
    (hact' : r ∈ s'.activeI) : s'.height ≤ q.expH := pending_bounded hc hr hl r q hact hq hact'

/-- … and every block raises the height by exactly one, so after at most `expiry − height + 1` further blocks the
    request is no longer pending (and, by C02, has been settled exactly once). -/
theorem every_block_advances_height (hc : CfgOK cfg p) {s : State} (hr : Reachable cfg p h0 t0 s) (dt : Int) :
    (step s (.endblock dt)).1.height = s.height + 1 := endblock_advances (reachable_inv hc hr) dt

/-- The state clauses in every state of a chain that goes through any number of zero-height restarts (a restart leaves
    both queues empty and every context paused, so nothing is stranded by it): queues mirror their pointers, events are
    not in the past and refer to existing contexts, a running context has an event and never two, and every pending
    request belongs to the current batch of an existing context whose pending expiry is at the request's expiry height. -/
theorem scheduling_invariants_across_restarts (hc : CfgOK cfg p) {s : State} (hr : ReachableR cfg p h0 t0 s) :
    (∀ h c, (h, c) ∈ s.newQ ↔ Map.get s.newH c = some h) ∧ (∀ h c, (h, c) ∈ s.expQ ↔ Map.get s.expH c = some h) ∧
    (∀ c h, Map.get s.newH c = some h → s.height ≤ h ∧ (Map.get s.ctxs c).isSome) ∧
    (∀ c h, Map.get s.expH c = some h → s.height ≤ h ∧ (Map.get s.ctxs c).isSome) ∧
    (∀ c, Map.get s.newH c = none ∨ Map.get s.expH c = none) ∧
    (∀ c x, Map.get s.ctxs c = some x → x.state = .running → (Map.get s.newH c).isSome ∨ (Map.get s.expH c).isSome) ∧
    (∀ r, r ∈ s.activeI → ∃ q x, Map.get s.reqs r = some q ∧ Map.get s.ctxs r.ctx = some x ∧ r.batch = x.batch ∧
      Map.get s.expH r.ctx = some q.expH) := by
  have h := (reachableR_invAll hc hr).inv.x
  refine ⟨h.newMirror, h.expMirror, h.newFuture, h.expFuture, h.single, h.runningQ, ?_⟩
  intro r hact
  cases hq : Map.get s.reqs r with
  | none => have := h.activeReq r hact; rw [hq] at this; cases this
  | some q =>
    obtain ⟨x, hx, hb, he⟩ := h.reqCtx r q hq
    exact ⟨q, x, rfl, hx, hb, he⟩

/-- The executable monitor `queues` (`Inv/Monitors.lean`), which the check evaluates on every state decoded from the
    implementation's trace, is implied by the invariants: on every chain — any operations, any number of restarts —
    it reports nothing (it walks the raw lists of the state; that each map holds one record per key is
    `keys1_reachableR`). An alarm of it on an implementation state therefore means a state the model cannot reach. -/
theorem scheduling_monitor_implied (hc : CfgOK cfg p) {s : State} (hr : ReachableR cfg p h0 t0 s) :
    Mon.queues s = [] := (scheduling_monitors_quiet_on_chains_with_restarts hc hr).1

end SM.C11
