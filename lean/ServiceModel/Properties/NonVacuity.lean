import ServiceModel.Properties.C19
import ServiceModel.Properties.C20
import ServiceModel.Properties.C17
import ServiceModel.Properties.C10
import ServiceModel.Properties.C12
import ServiceModel.Proofs.RestartStable
import ServiceModel.Proofs.OnceRestart
/-!
# Non-vacuity: the hypotheses of the property theorems are met by concrete, non-trivial reachable states

`Reachable` is built for literal operation lists by checking `WF` at every step with `decide`
(kernel evaluation of the executable model; these are examples, not property theorems). The
state reached has a definition, a binding with a deposit, a repeated context with a batch in
flight, a pending request, and — after the response — earnings; further blocks let the batch expire.
-/
namespace SM.NonVacuity
open SM Map

instance (s : State) (a : Addr) : Decidable (s.custody a) := by unfold State.custody; infer_instance
instance (s : State) (a : Addr) : Decidable (s.modAcct a) := by unfold State.modAcct; infer_instance
instance (s : State) (op : Op) : Decidable (WF s op) := by cases op <;> unfold WF <;> infer_instance

/-- every operation of the list is well-formed in the state in which it is executed -/
def wfAll : State → List Op → Bool
  | _, [] => true
  | s, op :: ops => decide (WF s op) && wfAll (step s op).1 ops

def runOps (s : State) (ops : List Op) : State := ops.foldl (fun s o => (step s o).1) s

theorem reachable_of_wfAll {cfg : Config} {p : Params} {h0 t0 : Int} :
    ∀ (ops : List Op) (s : State), Reachable cfg p h0 t0 s → wfAll s ops = true → Reachable cfg p h0 t0 (runOps s ops) := by
  intro ops
  induction ops with
  | nil => intro s hs _; exact hs
  | cons op t ih =>
    intro s hs hw
    simp only [wfAll, Bool.and_eq_true, decide_eq_true_eq] at hw
    exact ih _ (Reachable.step op hs hw.1) hw.2

def cfg0 : Config := { escrow := "e", deposit := "d", collector := "c", modules := ["oracle"], modsvc := none }
def p0 : Params :=
  { maxTimeout := 100, mult := 2, minDep := 10, tax := 100000000000000000, slash := 1000000000000000, complaint := 1, arbitration := 1 }
def text0 : PricingText := { price := "5stake", promT := [], promV := [] }
def r0 : ReqId := { ctx := ⟨7, 0⟩, batch := 1, height := 1, index := 0 }

/-- fund, define, bind two providers, a repeated call, one block (batch 1 issued: two pending requests) -/
def ops1 : List Op :=
  [.fund "o" 1000, .fund "u" 100, .define "svc" "o" true,
   .bind "svc" "p" "o" (some 100) (some text0) 1, .bind "svc" "q" "o" (some 100) (some text0) 1,
   .call ⟨7, 0⟩ "svc" ["p", "q"] "u" (some 10) 2 false true 4 3 true, .endblock 5]

/-- … then one provider answers (earnings appear) -/
def ops2 : List Op := ops1 ++ [.respond r0 "p" 200 .valid]

def s1 : State := runOps (genesis cfg0 p0 1 0) ops1
def s2 : State := runOps (genesis cfg0 p0 1 0) ops2

theorem cfg0_ok : CfgOK cfg0 p0 := by
  refine ⟨by decide, by decide, by decide, by decide, by decide, by decide, by decide, by decide, by decide⟩

theorem s1_reachable : Reachable cfg0 p0 1 0 s1 := reachable_of_wfAll ops1 _ Reachable.init (by decide)
theorem s2_reachable : Reachable cfg0 p0 1 0 s2 := reachable_of_wfAll ops2 _ Reachable.init (by decide)

/-- the states are not trivial: two pending requests of a running batch, escrow holding their fees; then one
    answered, earnings recorded for the provider and its owner -/
example : s1.activeI.length = 2 ∧ balOf s1.bank.bal "e" = 10 ∧ s1.reqs.length = 2 ∧ s1.expQ.length = 1 := by decide
example : s2.activeI.length = 1 ∧ s2.resps.length = 1 ∧ get s2.earned "p" = some 5 ∧ get s2.ownerEarned "o" = some 5 ∧
    balOf s2.bank.bal "e" = 10 := by decide

/-- C01 / C13 / C16 … : the invariant holds there (instance of `reachable_inv`) -/
example : Inv s2 := reachable_inv cfg0_ok s2_reachable

/-- C19: the side hypothesis `hprov` is met, the preparation runs, and the escrow ends empty -/
example : (∀ a, (get s2.earned a).isSome → a ≠ s2.cfg.escrow) := by
  intro a h e; subst e; revert h; decide
example : (prep s2).panic = none ∧ balOf (prep s2).s.bank.bal "e" = 0 := by decide

/-- C19: an exported genesis that is valid (after the preparation) does exist -/
example : validateG (exportG (prep s2).s) = true := by decide

/-- C17: the listing theorems speak about non-empty answers -/
example : ∃ l, query s2 (.requests "svc" "q") = .ok (.requests l) ∧ l.length = 1 := ⟨_, rfl, by decide⟩
example : ∃ l, query s2 (.bindings "svc" "o") = .ok (.bindings l) ∧ l.length = 2 := ⟨_, rfl, by decide⟩

/-- C20: a message that does panic exists (D9), so `only_deposit_messages_can_panic` excludes something real -/
def hugeText : PricingText :=
  { price := "57896044618658097711785492504343953926634992332820282019728792003956564819967stake", promT := [], promV := [] }
set_option maxRecDepth 8000 in
example : (step s2 (.bind "svc" "z" "o" (some 100) (some hugeText) 1)).2.1.isPanic = true := by decide

/-- C08 / C02: a second response to the answered request is rejected, the first one was accepted -/
example : (step s1 (.respond r0 "p" 200 .valid)).2.1 = .ok ∧ (step s2 (.respond r0 "p" 200 .valid)).2.1 ≠ .ok := by decide

/-- C10 / C11: three more blocks: the batch expires (the unanswered request is refunded and its provider slashed),
    the next batch is issued at height 1 + frequency -/
def s3 : State := runOps s2 [.endblock 5, .endblock 5, .endblock 5, .endblock 5]
example : Reachable cfg0 p0 1 0 s3 := reachable_of_wfAll _ _ s2_reachable (by decide)
example : s3.height = 6 ∧ (get s3.ctxs ⟨7, 0⟩).map (·.batch) = some 2 ∧ s3.activeI.length = 2 := by decide

/-- C10, ghosted run: the observer of `Proofs/Cadence.lean` along the same history -/
def runG (sg : State × Ghost) (ops : List Op) : State × Ghost :=
  ops.foldl (fun sg o => ((step sg.1 o).1, gstep sg.2 sg.1 o)) sg

theorem greach_of_wfAll {cfg : Config} {p : Params} {h0 t0 : Int} :
    ∀ (ops : List Op) (s : State) (g : Ghost), GReach cfg p h0 t0 s g → wfAll s ops = true →
      GReach cfg p h0 t0 (runG (s, g) ops).1 (runG (s, g) ops).2 := by
  intro ops
  induction ops with
  | nil => intro s g hs _; exact hs
  | cons op t ih =>
    intro s g hs hw
    simp only [wfAll, Bool.and_eq_true, decide_eq_true_eq] at hw
    exact ih _ _ (GReach.step op hs hw.1) hw.2

def sg3 : State × Ghost := runG (genesis cfg0 p0 1 0, Ghost.init) (ops2 ++ [.endblock 5, .endblock 5, .endblock 5, .endblock 5])

/-- two batches have started (heights 1 and 5 = 1 + frequency 4); the context is tracked with its latest start, the
    flag is down -/
example : GReach cfg0 p0 1 0 sg3.1 sg3.2 := greach_of_wfAll _ _ _ GReach.init (by decide)
example : get sg3.2.last ⟨7, 0⟩ = some 5 ∧ sg3.2.bad = false ∧ (get sg3.1.ctxs ⟨7, 0⟩).map (·.batch) = some 2 := by decide

/-- the flag is live: had the previous start been recorded as 2, the start at height 5 (frequency 4) raises it; and a
    pause drops the record -/
def sgBefore : State × Ghost := runG (genesis cfg0 p0 1 0, Ghost.init) (ops2 ++ [.endblock 5, .endblock 5, .endblock 5])
example : sgBefore.1.height = 5 ∧ get sgBefore.2.last ⟨7, 0⟩ = some 1 := by decide
example : (gstep ⟨[(⟨7, 0⟩, 2)], false⟩ sgBefore.1 (.endblock 5)).bad = true := by decide
example : get (gstep sgBefore.2 sgBefore.1 (.pause ⟨7, 0⟩ "u")).last ⟨7, 0⟩ = none := by decide

/-- C12, counted run: a context created by the module `oracle`; its batch is answered, the callback is invoked once -/
def runC (sn : State × (CtxId → Nat)) (ops : List Op) : State × (CtxId → Nat) :=
  ops.foldl (fun sn o => ((step sn.1 o).1, fun c => sn.2 c + cbCount c (step sn.1 o).2.2)) sn

theorem creach_of_wfAll {cfg : Config} {p : Params} {h0 t0 : Int} :
    ∀ (ops : List Op) (s : State) (n : CtxId → Nat), CReach cfg p h0 t0 s n → wfAll s ops = true →
      CReach cfg p h0 t0 (runC (s, n) ops).1 (runC (s, n) ops).2 := by
  intro ops
  induction ops with
  | nil => intro s n hs _; exact hs
  | cons op t ih =>
    intro s n hs hw
    simp only [wfAll, Bool.and_eq_true, decide_eq_true_eq] at hw
    exact ih _ _ (CReach.step op hs hw.1) hw.2

def opsM : List Op :=
  [.fund "o" 1000, .fund "u" 100, .define "svc" "o" true, .bind "svc" "p" "o" (some 100) (some text0) 1,
   .modcreate ⟨8, 0⟩ "oracle" "svc" ["p"] "u" (some 10) 2 false true 4 3 true true 1, .endblock 5]
def rM : ReqId := { ctx := ⟨8, 0⟩, batch := 1, height := 1, index := 0 }
def snM1 : State × (CtxId → Nat) := runC (genesis cfg0 p0 1 0, fun _ => 0) opsM
def snM2 : State × (CtxId → Nat) := runC (genesis cfg0 p0 1 0, fun _ => 0) (opsM ++ [.respond rM "p" 200 .valid])

example : CReach cfg0 p0 1 0 snM2.1 snM2.2 := creach_of_wfAll _ _ _ CReach.init (by decide)
/-- batch 1 in flight, no callback yet; after the response: completed, one callback -/
example : (get snM1.1.ctxs ⟨8, 0⟩).map (fun x => (x.batch, x.bstate)) = some (1, .running) ∧ snM1.2 ⟨8, 0⟩ = 0 := by decide
example : (get snM2.1.ctxs ⟨8, 0⟩).map (fun x => (x.batch, x.bstate)) = some (1, .completed) ∧ snM2.2 ⟨8, 0⟩ = 1 := by decide

/-! ### C19, the restarted chain: from `s2` (a pending request, earnings, a running context) the restart succeeds,
the context comes back paused with an empty escrow, and the chain goes on: the consumer starts the context again and
the next block issues a fresh batch (two paid requests held by the escrow) -/
def sR : State := (restart s2 1 0).getD s2
def opsR : List Op := [.start ⟨7, 0⟩ "u", .endblock 5]
theorem sR_is_restart : restart s2 1 0 = some sR := by
  have h : (restart s2 1 0).isSome = true := by decide
  unfold sR
  cases hr : restart s2 1 0 with
  | none => rw [hr] at h; cases h
  | some x => rfl
example : balOf sR.bank.bal "e" = 0 ∧ balOf sR.bank.bal "d" = 200 ∧ sR.reqs.length = 0 ∧ sR.earned.length = 0 ∧
    (get sR.ctxs ⟨7, 0⟩).map (fun x => (x.state, x.bstate, x.batch)) = some (.paused, .completed, 1) := by decide
theorem sR2_reachableFrom : ∀ (ops : List Op) (s : State), ReachableFrom sR s → wfAll s ops = true →
    ReachableFrom sR (runOps s ops) := by
  intro ops
  induction ops with
  | nil => intro s hs _; exact hs
  | cons op t ih =>
    intro s hs hw
    simp only [wfAll, Bool.and_eq_true, decide_eq_true_eq] at hw
    exact ih _ (ReachableFrom.step op hs hw.1) hw.2
example : ReachableFrom sR (runOps sR opsR) := sR2_reachableFrom opsR sR ReachableFrom.init (by decide)
example : (runOps sR opsR).activeI.length = 2 ∧ balOf (runOps sR opsR).bank.bal "e" = 10 ∧
    (get (runOps sR opsR).ctxs ⟨7, 0⟩).map (fun x => (x.state, x.bstate, x.batch)) = some (.running, .running, 2) := by decide
example : Inv (runOps sR opsR) :=
  (C19.restarted_chain_stays_backed cfg0_ok s2_reachable 1 0 sR_is_restart
    (sR2_reachableFrom opsR sR ReachableFrom.init (by decide))).1

/-- … and the same history as a `ReachableR` chain: `s2`, a restart, the context started again, a block, and a second
    restart — which succeeds, as `C19.chain_with_restarts_keeps_invariants` says it must -/
theorem reachableR_of_reachable {s : State} (h : Reachable cfg0 p0 1 0 s) : ReachableR cfg0 p0 1 0 s := by
  induction h with
  | init => exact ReachableR.init
  | step op _ hw ih => exact ReachableR.step op ih hw
theorem sR_reachableR : ReachableR cfg0 p0 1 0 sR :=
  ReachableR.restart 1 0 (reachableR_of_reachable s2_reachable) sR_is_restart
example : (restart (runOps sR opsR) 7 0).isSome = true := by decide

/-- … and `ContinuesR` is inhabited by a chain that really restarts: from `s2` through the restart to `sR`; the
    binding of `s2` is read back with its deposit and owner, as `C15.stable_across_restarts` and
    `C19.restart_gives_back_the_same_records` say -/
theorem s2_continues_to_sR : ContinuesR (fun _ => True) s2 sR := ContinuesR.restart 1 0 ContinuesR.refl sR_is_restart
example : (get s2.bindings ("svc", "p")).isSome = true ∧ get sR.bindings ("svc", "p") = get s2.bindings ("svc", "p") ∧
    (get s2.owner "p").isSome = true ∧ get sR.owner "p" = get s2.owner "p" := by decide

/-- … and `LeadsR` (C02 / C04 over restarts) is inhabited by a continuation that restarts while requests are pending:
    `s2` holds pending requests; the chain is restarted, the context started again and a block ended — new requests are
    pending then, none of them one of the old ones (`C02.request_pending_at_restart_is_settled_for_good`) -/
theorem leadsR_of_ops : ∀ (ops : List Op) (s : State), wfAll s ops = true → LeadsR s (runOps s ops) := by
  intro ops
  induction ops with
  | nil => intro s _; exact LeadsR.refl s
  | cons op t ih =>
    intro s hw
    simp only [wfAll, Bool.and_eq_true, decide_eq_true_eq] at hw
    exact LeadsR.step op hw.1 (ih _ hw.2)
theorem s2_leadsR : LeadsR s2 (runOps sR opsR) := LeadsR.restart 1 0 sR_is_restart (leadsR_of_ops opsR sR (by decide))
example : s2.activeI.length = 1 ∧ (runOps sR opsR).activeI.length = 2 ∧
    (s2.activeI.all fun r => !(runOps sR opsR).activeI.contains r) = true := by decide

/-- C12 over restarts: the module context of `snM1` has batch 1 in flight; the chain is restarted there. The batch is
    counted as cancelled (`k = 1`), no callback was invoked (`n = 0`), the context comes back with batch counter 1 and
    its batch completed: 0 + 1 + 0 = 1, as `C12.callbacks_match_batches_across_restarts` says. -/
def sMR : State := (restart snM1.1 9 0).getD snM1.1
theorem sMR_is_restart : restart snM1.1 9 0 = some sMR := by
  have h : (restart snM1.1 9 0).isSome = true := by decide
  cases hr : restart snM1.1 9 0 with
  | none => rw [hr] at h; cases h
  | some x => simp [sMR, hr]
theorem creachR_of_wfAll {cfg : Config} {p : Params} {h0 t0 : Int} :
    ∀ (ops : List Op) (s : State) (n k : CtxId → Nat), CReachR cfg p h0 t0 s n k → wfAll s ops = true →
      CReachR cfg p h0 t0 (runC (s, n) ops).1 (runC (s, n) ops).2 k := by
  intro ops
  induction ops with
  | nil => intro s n k hs _; exact hs
  | cons op t ih =>
    intro s n k hs hw
    simp only [wfAll, Bool.and_eq_true, decide_eq_true_eq] at hw
    exact ih _ _ _ (CReachR.step op hs hw.1) hw.2
theorem snM1_counted : CReachR cfg0 p0 1 0 snM1.1 snM1.2 (fun _ => 0) :=
  creachR_of_wfAll _ _ _ _ CReachR.init (by decide)
theorem sMR_counted : CReachR cfg0 p0 1 0 sMR snM1.2 (fun c => 0 + cancelled snM1.1 c) :=
  CReachR.restart 9 0 snM1_counted sMR_is_restart
example : cancelled snM1.1 ⟨8, 0⟩ = 1 ∧ snM1.2 ⟨8, 0⟩ = 0 ∧
    (get sMR.ctxs ⟨8, 0⟩).map (fun x => (x.batch, x.bstate, x.state)) = some (1, .completed, .paused) := by decide
/-- … and the chain goes on: the module starts its context again, batch 2 is issued and answered — one callback, one
    cancelled batch, two batches started -/
def opsMR : List Op := [.modstart ⟨8, 0⟩ "u", .endblock 5,
  .respond { ctx := ⟨8, 0⟩, batch := 2, height := 9, index := 0 } "p" 200 .valid]
def snMR2 : State × (CtxId → Nat) := runC (sMR, snM1.2) opsMR
example : CReachR cfg0 p0 1 0 snMR2.1 snMR2.2 (fun c => 0 + cancelled snM1.1 c) :=
  creachR_of_wfAll _ _ _ _ sMR_counted (by decide)
example : snMR2.2 ⟨8, 0⟩ = 1 ∧ (get snMR2.1.ctxs ⟨8, 0⟩).map (fun x => (x.batch, x.bstate)) = some (2, .completed) := by decide

/-- C10 over restarts: the observed chain `sg3` (two batches tracked) is restarted; the observer forgets the record, the
    flag stays down; the consumer starts the context again and the next batch is tracked anew -/
def sgR : State := (restart sg3.1 20 0).getD sg3.1
theorem sgR_is_restart : restart sg3.1 20 0 = some sgR := by
  have h : (restart sg3.1 20 0).isSome = true := by decide
  cases hr : restart sg3.1 20 0 with
  | none => rw [hr] at h; cases h
  | some x => simp [sgR, hr]
theorem greachR_of_wfAll {cfg : Config} {p : Params} {h0 t0 : Int} :
    ∀ (ops : List Op) (s : State) (g : Ghost), GReachR cfg p h0 t0 s g → wfAll s ops = true →
      GReachR cfg p h0 t0 (runG (s, g) ops).1 (runG (s, g) ops).2 := by
  intro ops
  induction ops with
  | nil => intro s g hs _; exact hs
  | cons op t ih =>
    intro s g hs hw
    simp only [wfAll, Bool.and_eq_true, decide_eq_true_eq] at hw
    exact ih _ _ (GReachR.step op hs hw.1) hw.2
theorem sgR_observed : GReachR cfg0 p0 1 0 sgR ⟨[], sg3.2.bad⟩ :=
  GReachR.restart 20 0 (GReach.toR (greach_of_wfAll _ _ _ GReach.init (by decide))) sgR_is_restart
def sgR2 : State × Ghost := runG (sgR, ⟨[], sg3.2.bad⟩) [.start ⟨7, 0⟩ "u", .endblock 5]
example : GReachR cfg0 p0 1 0 sgR2.1 sgR2.2 := greachR_of_wfAll _ _ _ sgR_observed (by decide)
example : get sgR2.2.last ⟨7, 0⟩ = some 20 ∧ sgR2.2.bad = false ∧
    (get sgR2.1.ctxs ⟨7, 0⟩).map (·.batch) = some 3 := by decide

end SM.NonVacuity
