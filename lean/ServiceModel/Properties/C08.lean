import ServiceModel.Proofs.Reachable
/-!
# C08 — A request can be answered once, by its provider, until its expiry block ends
-/
namespace SM.C08
open SM

variable {cfg : Config} {p : Params} {h0 t0 : Int}

/-- In a reachable state the settlement of an admissible response cannot fail: the escrow holds the fee, the deposit
    account holds the slashed amount, the minimum deposit of an available binding does not overflow. -/
theorem settle_succeeds {s : State} (h : Inv s) (r : ReqId) (q : Req) (x : Ctx) (out : OutKind)
    (hq : Map.get s.reqs r = some q) (hx : Map.get s.ctxs r.ctx = some x) (hact : r ∈ s.activeI) :
    ∃ res, settle s r x.svc x.cons q q.prov out = .ok res := by
  obtain ⟨y, hy, hbind, _⟩ := h.bound r q hq
  rw [hx] at hy; injection hy with hy; subst hy
  obtain ⟨b, hb⟩ : ∃ b, Map.get s.bindings (x.svc, q.prov) = some b := by
    cases hh : Map.get s.bindings (x.svc, q.prov) with
    | none => rw [hh] at hbind; simp at hbind
    | some b => exact ⟨b, rfl⟩
  have hfee : feeAt s.reqs r = q.fee := by unfold feeAt; rw [hq]
  have hge : q.fee ≤ balOf s.bank.bal s.cfg.escrow := by
    have := feeAt_le_feeSum s.reqs s.activeI r hact
    have := h.m.escrow
    rw [hfee] at *; omega
  unfold settle
  split
  · -- malformed output: slash, then refund
    have hamt : b.deposit * s.params.slash / decUnit ≤ b.deposit := by
      have := h.static.slash_le
      calc b.deposit * s.params.slash / decUnit ≤ b.deposit * decUnit / decUnit :=
            Nat.div_le_div_right (Nat.mul_le_mul_left _ this)
        _ = b.deposit := Nat.mul_div_cancel _ (by decide)
    have hdepbal : b.deposit ≤ balOf s.bank.bal s.cfg.deposit := by
      have hv := Map.valAt_le_total (fun b : Binding => b.deposit) s.bindings (x.svc, q.prov)
      rw [valAt_eq_of_get _ _ _ _ hb] at hv
      rw [h.b.backed]; exact hv
    obtain ⟨s1, e1, hs⟩ : ∃ s1 e1, slash s r x.svc q.prov = .done s1 e1 := by
      unfold slash
      rw [hb]; dsimp only
      rw [if_neg (by omega)]
      have hburn : ∃ bk, bankBurn s.bank s.cfg.deposit (b.deposit * s.params.slash / decUnit) = some bk := by
        unfold bankBurn; rw [if_neg (by omega)]; exact ⟨_, rfl⟩
      obtain ⟨bk, hbk⟩ := hburn
      rw [hbk]; dsimp only
      by_cases hav : b.avail = true
      · obtain ⟨pr, md, hpr, hmd, _⟩ := h.b.minDep _ b hb hav
        rw [if_pos hav, storedPricing_of_get hpr, hmd]
        exact ⟨_, _, rfl⟩
      · rw [if_neg hav]; exact ⟨_, _, rfl⟩
    rw [hs]; dsimp only
    have hcfg := slash_cfg hs
    have hesc := slash_escrow h.static hs
    have : q.fee ≤ balOf s1.bank.bal s1.cfg.escrow := by rw [hcfg, hesc]; exact hge
    cases hsend : bankSend s1.bank s1.cfg.escrow x.cons q.fee with
    | none => have h2 := (bankSend_some_iff s1.bank s1.cfg.escrow x.cons q.fee).mpr this; rw [hsend] at h2; simp at h2
    | some bank' => exact ⟨_, rfl⟩
  · -- accepted: tax to the collector, the rest to the earnings
    have htax : q.fee * s.params.tax / decUnit ≤ q.fee := by
      have := h.static.tax_lt
      calc q.fee * s.params.tax / decUnit ≤ q.fee * decUnit / decUnit :=
            Nat.div_le_div_right (Nat.mul_le_mul_left _ (Nat.le_of_lt this))
        _ = q.fee := Nat.mul_div_cancel _ (by decide)
    unfold addEarned; dsimp only
    cases hsend : bankSend s.bank s.cfg.escrow s.cfg.collector (q.fee * s.params.tax / decUnit) with
    | none =>
      have h2 := (bankSend_some_iff s.bank s.cfg.escrow s.cfg.collector (q.fee * s.params.tax / decUnit)).mpr (by omega)
      rw [hsend] at h2; simp at h2
    | some bank' =>
      dsimp only
      rw [if_neg (by omega)]
      exact ⟨_, rfl⟩

/-- A response is accepted exactly when the request is known, its context exists, the signer is the request's
    provider and the request is still pending. -/
theorem respond_ok_iff (hc : CfgOK cfg p) {s : State} (hr : Reachable cfg p h0 t0 s)
    (r : ReqId) (pv : Addr) (code : Nat) (out : OutKind) :
    (respond s r pv code out).2.1 = .ok ↔
      ∃ q x, Map.get s.reqs r = some q ∧ Map.get s.ctxs r.ctx = some x ∧ pv = q.prov ∧ r ∈ s.activeI := by
  have h := reachable_inv hc hr
  constructor
  · intro hok
    unfold respond at hok
    cases hq : Map.get s.reqs r with
    | none => rw [hq] at hok; simp [fail] at hok
    | some q =>
      rw [hq] at hok; dsimp only at hok
      cases hx : Map.get s.ctxs r.ctx with
      | none => rw [hx] at hok; simp [fail] at hok
      | some x =>
        rw [hx] at hok; dsimp only at hok
        split at hok; · simp [fail] at hok
        split at hok; · simp [fail] at hok
        rename_i h1 h2
        exact ⟨q, x, rfl, rfl, by simpa using h1, by simpa using h2⟩
  · rintro ⟨q, x, hq, hx, hp, hact⟩
    subst hp
    obtain ⟨⟨s1, e1⟩, hs⟩ := settle_succeeds h r q x out hq hx hact
    unfold respond
    rw [hq]; dsimp only
    rw [hx]; dsimp only
    rw [if_neg (by simp), if_neg (by simpa using hact), hs]
    dsimp only
    split <;> rfl

theorem settle_error_not_ok {s : State} {r : ReqId} {svc : SvcName} {cons : Addr} {q : Req} {prov : Addr} {out : OutKind}
    {res : Res} (h : settle s r svc cons q prov out = .error res) : res ≠ .ok := by
  unfold settle at h
  repeat' split at h
  all_goals first
    | (injection h with h; subst h; simp)
    | (simp at h; done)

/-- An accepted response makes the request no longer pending (so a second response is rejected) and records it. -/
theorem accepted_response_deactivates (s : State) (r : ReqId) (pv : Addr) (code : Nat) (out : OutKind)
    (hok : (respond s r pv code out).2.1 = .ok) :
    (respond s r pv code out).1.activeI = FSet.rem s.activeI r ∧
    (Map.get (respond s r pv code out).1.resps r).isSome := by
  unfold respond at hok ⊢
  cases hq : Map.get s.reqs r with
  | none => rw [hq] at hok; simp [fail] at hok
  | some q =>
    rw [hq] at hok; dsimp only at hok ⊢
    cases hx : Map.get s.ctxs r.ctx with
    | none => rw [hx] at hok; simp [fail] at hok
    | some x =>
      rw [hx] at hok; dsimp only at hok ⊢
      split at hok; · simp [fail] at hok
      split at hok; · simp [fail] at hok
      rename_i h1 h2
      rw [if_neg h1, if_neg h2]
      cases hs : settle s r x.svc x.cons q pv out with
      | error res => rw [hs] at hok; exact absurd hok (settle_error_not_ok hs)
      | ok res =>
        obtain ⟨s1, e1⟩ := res
        dsimp only
        obtain ⟨bank', bs, ea, oe, hshape, _⟩ := settle_shape hs
        subst hshape
        split <;> exact ⟨rfl, by simp [setCtx, delActive]⟩

/-- Rejected operations change nothing (the handler runs on a cached context that is dropped on failure). -/
theorem rejected_changes_nothing (s : State) (op : Op) (hne : op.isEndblock = false) (hr : (step s op).2.1 ≠ .ok) :
    (step s op).1 = s := by
  unfold step at hr ⊢
  split
  · rfl
  · rename_i hv
    rw [if_neg hv] at hr
    generalize exec s op = res at hr ⊢
    obtain ⟨s', r, e⟩ := res
    simp only [hne, Bool.false_eq_true, if_false] at hr ⊢
    cases r <;> simp_all

end SM.C08
