import ServiceModel.Proofs.Reachable
/-!
# C06 — Requests go only to eligible providers, within the consumer's fee cap
-/
namespace SM.C06
open SM

/-- A provider is eligible exactly when it is named in the context and has an available binding for the service whose
    committed response time does not exceed the timeout and whose current price does not exceed the fee cap. -/
theorem eligible_iff (s : State) (x : Ctx) (pv : Addr) (price : Nat) :
    (pv, price) ∈ eligible s x ↔
      pv ∈ x.provs ∧ ∃ b, Map.get s.bindings (x.svc, pv) = some b ∧ b.avail = true ∧ (b.qos : Int) ≤ x.timeout ∧
        price = priceOf (storedPricing s x.svc pv) s.time ((Map.get s.volume (x.cons, x.svc, pv)).getD 0) ∧ price ≤ x.cap := by
  unfold eligible
  rw [List.mem_filterMap]
  constructor
  · rintro ⟨a, ha, h⟩
    cases hb : Map.get s.bindings (x.svc, a) with
    | none => rw [hb] at h; simp at h
    | some b =>
      rw [hb] at h; dsimp only at h
      split at h
      · rename_i hc
        split at h
        · rename_i hcap
          injection h with h; injection h with h1 h2; subst h1
          exact ⟨ha, b, hb, hc.1, hc.2, h2.symm, by rw [← h2]; exact hcap⟩
        · simp at h
      · simp at h
  · rintro ⟨hp, b, hb, h1, h2, h3, h4⟩
    refine ⟨pv, hp, ?_⟩
    rw [hb]; dsimp only
    rw [if_pos ⟨h1, h2⟩, ← h3, if_pos h4]

/-- The eligible providers keep the order in which the context names them. -/
theorem eligible_order (s : State) (x : Ctx) : List.Sublist ((eligible s x).map (·.1)) x.provs := by
  unfold eligible
  induction x.provs with
  | nil => simp
  | cons a t ih =>
    simp only [List.filterMap_cons]
    split
    · exact List.Sublist.cons _ ih
    · rename_i b hb
      have : b.1 = a := by
        cases hbb : Map.get s.bindings (x.svc, a) with
        | none => rw [hbb] at hb; simp at hb
        | some bb =>
          rw [hbb] at hb; dsimp only at hb
          split at hb
          · split at hb
            · injection hb with hb; rw [← hb]
            · simp at hb
          · simp at hb
      simp only [List.map_cons, this]
      exact List.Sublist.cons₂ _ ih

/-- When a batch is issued, the requests created go to exactly the given providers, in order, and carry the given
    prices as fees (none in super mode). -/
theorem issued_requests_are_exactly (c : CtxId) (x : Ctx) (height : Int) (el : List (Addr × Nat)) (i : Nat) :
    (issuedPairs c x height el i).map (fun pq => (pq.2.prov, pq.2.fee)) = el.map (fun e => (e.1, if x.super then 0 else e.2)) ∧
    (issuedPairs c x height el i).map (fun pq => pq.1.index) = List.range' i el.length := by
  induction el generalizing i with
  | nil => simp [issuedPairs]
  | cons hd t ih =>
    obtain ⟨p, price⟩ := hd
    obtain ⟨h1, h2⟩ := ih (i + 1)
    simp only [issuedPairs, List.map_cons, List.length_cons, List.range'_succ, h1, h2, and_self]

/-- Decision law, skip: fewer eligible providers than the threshold (or none) → the batch is skipped: the counter
    advances, no request is created, nobody is charged. -/
theorem batch_skipped (s : State) (c : CtxId) (x : Ctx)
    (hfew : ¬ ((eligible s x).length > 0 ∧ (eligible s x).length ≥ x.thr)) :
    (startOrSkip s c x).2 = [] ∧ (startOrSkip s c x).1.reqs = s.reqs ∧ (startOrSkip s c x).1.bank = s.bank ∧
    Map.get (startOrSkip s c x).1.ctxs c = some { x with batch := x.batch + 1, bstate := .running, reqN := 0, respN := 0, bthr := x.thr } := by
  unfold startOrSkip
  rw [if_neg hfew]
  exact ⟨rfl, rfl, rfl, Map.get_set_same _ _ _⟩

/-- Decision law, pause: enough eligible providers but the consumer cannot pay the total → the context is paused,
    with no requests, no charge and the counter unchanged. -/
theorem batch_paused_unfunded (s : State) (c : CtxId) (x : Ctx) (hsuper : x.super = false)
    (hel : (eligible s x).length > 0 ∧ (eligible s x).length ≥ x.thr)
    (hpoor : s.bal x.cons < sumPrices (eligible s x)) :
    (startOrSkip s c x).1.reqs = s.reqs ∧ (startOrSkip s c x).1.bank = s.bank ∧
    Map.get (startOrSkip s c x).1.ctxs c = some { x with bstate := .completed, state := .paused } := by
  have hnone : bankSend s.bank x.cons s.cfg.escrow (sumPrices (eligible s x)) = none := by
    unfold bankSend; exact if_pos hpoor
  unfold startOrSkip
  rw [if_pos hel, if_neg (by simp [hsuper]), hnone]
  exact ⟨rfl, rfl, Map.get_set_same _ _ _⟩

/-- Decision law, issue: enough eligible providers and a solvent consumer → one debit of the total, then the batch. -/
theorem batch_issued (s : State) (c : CtxId) (x : Ctx) (hsuper : x.super = false)
    (hel : (eligible s x).length > 0 ∧ (eligible s x).length ≥ x.thr)
    (hrich : sumPrices (eligible s x) ≤ s.bal x.cons) :
    ∃ bank', bankSend s.bank x.cons s.cfg.escrow (sumPrices (eligible s x)) = some bank' ∧
      startOrSkip s c x = issueBatch s bank' c x (eligible s x)
        (if sumPrices (eligible s x) = 0 then [] else [.transfer x.cons s.cfg.escrow (sumPrices (eligible s x))]) := by
  obtain ⟨bank', hb⟩ : ∃ bank', bankSend s.bank x.cons s.cfg.escrow (sumPrices (eligible s x)) = some bank' := by
    cases hh : bankSend s.bank x.cons s.cfg.escrow (sumPrices (eligible s x)) with
    | none => have := (bankSend_some_iff s.bank x.cons s.cfg.escrow _).mpr hrich; rw [hh] at this; simp at this
    | some b => exact ⟨b, rfl⟩
  refine ⟨bank', hb, ?_⟩
  unfold startOrSkip
  rw [if_pos hel, if_neg (by simp [hsuper]), hb]

/-- No request ever carries a fee above the cap in force when it was issued. -/
theorem fee_within_cap (s : State) (c : CtxId) (x : Ctx) (i : Nat) (r : ReqId) (q : Req)
    (h : (r, q) ∈ issuedPairs c x s.height (eligible s x) i) : q.fee ≤ x.cap := by
  obtain ⟨_, _, _, _, _, pr, hmem, hf⟩ := issuedPairs_index h
  have := ((eligible_iff s x q.prov pr).mp hmem).2
  obtain ⟨b, _, _, _, _, hcap⟩ := this
  rw [hf]; split
  · exact Nat.zero_le _
  · exact hcap

end SM.C06
