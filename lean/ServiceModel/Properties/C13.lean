import ServiceModel.Proofs.Reachable
/-!
# C13 — Earnings are accounted per provider and per owner and paid out exactly
-/
namespace SM.C13
open SM

variable {cfg : Config} {p : Params} {h0 t0 : Int}

/-- An owner's recorded earnings always equal the sum of the earnings of the providers it owns. -/
theorem owner_earnings_are_sum (hc : CfgOK cfg p) {s : State} (hr : Reachable cfg p h0 t0 s) (o : Addr) :
    balOf s.ownerEarned o = ownedEarned s o := (reachable_inv hc hr).m.ownerSum o

/-- Earnings are only ever recorded for providers that have an owner. -/
theorem earnings_have_owner (hc : CfgOK cfg p) {s : State} (hr : Reachable cfg p h0 t0 s) (pv : Addr)
    (h : (Map.get s.earned pv).isSome) : (Map.get s.owner pv).isSome := (reachable_inv hc hr).m.earnedOwned pv h

/-- Withdrawing for one provider: accepted only from its owner, pays exactly that provider's earnings to the
    owner's withdrawal address (the owner itself unless it has set another), zeroes exactly that provider's record
    and lowers the owner's record by the same amount. -/
theorem withdraw_provider (s : State) (o pv : Addr) (hp : pv ≠ "") (h : (withdraw s o pv).2.1 = .ok) :
    Map.get s.owner pv = some o ∧
    (withdraw s o pv).2.2 = (if balOf s.earned pv = 0 then [] else
        [.transfer s.cfg.escrow ((Map.get s.withdraw o).getD o) (balOf s.earned pv)]) ∧
    (withdraw s o pv).1.earned = Map.del s.earned pv ∧
    balOf (withdraw s o pv).1.ownerEarned o = balOf s.ownerEarned o - balOf s.earned pv ∧
    (∀ o2, o2 ≠ o → balOf (withdraw s o pv).1.ownerEarned o2 = balOf s.ownerEarned o2) := by
  unfold withdraw at h ⊢
  split at h; · simp [fail] at h
  rename_i hauth
  have hown : Map.get s.owner pv = some o := by
    by_cases hx : Map.get s.owner pv = some o
    · exact hx
    · exact absurd ⟨hp, hx⟩ hauth
  rw [if_neg hauth]
  -- the records after the withdrawal, by the two cases of the owner's total
  by_cases heq : balOf s.earned pv = balOf s.ownerEarned o
  · have hrec : withdrawRecords s o pv =
        .ok ({ s with earned := Map.del s.earned pv, ownerEarned := Map.del s.ownerEarned o }, balOf s.earned pv) := by
      unfold withdrawRecords; rw [if_pos hp, if_pos heq]
    rw [hrec] at h ⊢
    dsimp only at h ⊢
    split at h; · simp [fail] at h
    rename_i hdst
    rw [if_neg hdst]
    cases hs : bankSend s.bank s.cfg.escrow ((Map.get s.withdraw o).getD o) (balOf s.earned pv) with
    | none => rw [hs] at h; simp [fail] at h
    | some bank' =>
      refine ⟨hown, rfl, rfl, ?_, ?_⟩
      · show balOf (Map.del s.ownerEarned o) o = _
        unfold balOf at heq ⊢; rw [Map.get_del_same]; simp; omega
      · intro o2 ho2
        show balOf (Map.del s.ownerEarned o) o2 = _
        unfold balOf; rw [Map.get_del_other _ _ _ (fun e => ho2 e.symm)]
  · by_cases hlt : balOf s.ownerEarned o < balOf s.earned pv
    · have hrec : withdrawRecords s o pv = .error (.panic "negative coin amount") := by
        unfold withdrawRecords; rw [if_pos hp, if_neg heq, if_pos hlt]
      rw [hrec] at h; simp at h
    · have hrec : withdrawRecords s o pv =
          .ok ({ s with earned := Map.del s.earned pv,
                        ownerEarned := Map.set s.ownerEarned o (balOf s.ownerEarned o - balOf s.earned pv) }, balOf s.earned pv) := by
        unfold withdrawRecords; rw [if_pos hp, if_neg heq, if_neg hlt]
      rw [hrec] at h ⊢
      dsimp only at h ⊢
      split at h; · simp [fail] at h
      rename_i hdst
      rw [if_neg hdst]
      cases hs : bankSend s.bank s.cfg.escrow ((Map.get s.withdraw o).getD o) (balOf s.earned pv) with
      | none => rw [hs] at h; simp [fail] at h
      | some bank' =>
        refine ⟨hown, rfl, rfl, ?_, ?_⟩
        · show balOf (Map.set s.ownerEarned o _) o = _
          rw [balOf_set]; simp
        · intro o2 ho2
          show balOf (Map.set s.ownerEarned o _) o2 = _
          rw [balOf_set, if_neg (fun e : o = o2 => ho2 e.symm)]

end SM.C13
