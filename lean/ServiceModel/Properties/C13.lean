import ServiceModel.Proofs.Reachable
import ServiceModel.Proofs.Stable
import ServiceModel.Proofs.RestartStable
import ServiceModel.Proofs.MonitorSound
/-!
# C13 — Earnings are accounted per provider and per owner and paid out exactly
-/
namespace SM.C13
open SM

variable {cfg : Config} {p : Params} {h0 t0 : Int}

/-- An owner's recorded earnings always equal the sum of the earnings of the providers it owns. -/
theorem owner_earnings_are_sum (hc : CfgOK cfg p) {s : State} (hr : Reachable cfg p h0 t0 s) (o : Addr) :
    balOf s.ownerEarned o = ownedEarned s o := (reachable_inv hc hr).m.ownerSum o

/-- Earnings are only ever recorded for providers that have an owner. -/
theorem earnings_have_owner (hc : CfgOK cfg p) {s : State} (hr : Reachable cfg p h0 t0 s) (pv : Addr)
    (h : (Map.get s.earned pv).isSome) : (Map.get s.owner pv).isSome := (reachable_inv hc hr).m.earnedOwned pv h

/-- Withdrawing for one provider: accepted only from its owner, pays exactly that provider's earnings to the
    owner's withdrawal address (the owner itself unless it has set another), zeroes exactly that provider's record
    and lowers the owner's record by the same amount. -/
theorem withdraw_provider (s : State) (o pv : Addr) (hp : pv ≠ "") (h : (withdraw s o pv).2.1 = .ok) :
    Map.get s.owner pv = some o ∧
    (withdraw s o pv).2.2 = (if balOf s.earned pv = 0 then [] else
        [.transfer s.cfg.escrow ((Map.get s.withdraw o).getD o) (balOf s.earned pv)]) ∧
    (withdraw s o pv).1.earned = Map.del s.earned pv ∧
    balOf (withdraw s o pv).1.ownerEarned o = balOf s.ownerEarned o - balOf s.earned pv ∧
    (∀ o2, o2 ≠ o → balOf (withdraw s o pv).1.ownerEarned o2 = balOf s.ownerEarned o2) := by
  unfold withdraw at h ⊢
  split at h; · simp [fail] at h
  rename_i hauth
  have hown : Map.get s.owner pv = some o := by
    by_cases hx : Map.get s.owner pv = some o
    · exact hx
    · exact absurd ⟨hp, hx⟩ hauth
  rw [if_neg hauth]
  -- the records after the withdrawal, by the two cases of the owner's total
  by_cases heq : balOf s.earned pv = balOf s.ownerEarned o
  · have hrec : withdrawRecords s o pv =
        .ok ({ s with earned := Map.del s.earned pv, ownerEarned := Map.del s.ownerEarned o }, balOf s.earned pv) := by
      unfold withdrawRecords; rw [if_pos hp, if_pos heq]
    rw [hrec] at h ⊢
    dsimp only at h ⊢
    split at h; · simp [fail] at h
    rename_i hdst
    rw [if_neg hdst]
    cases hs : bankSend s.bank s.cfg.escrow ((Map.get s.withdraw o).getD o) (balOf s.earned pv) with
    | none => rw [hs] at h; simp [fail] at h
    | some bank' =>
      refine ⟨hown, rfl, rfl, ?_, ?_⟩
      · show balOf (Map.del s.ownerEarned o) o = _
        unfold balOf at heq ⊢; rw [Map.get_del_same]; simp; omega
      · intro o2 ho2
        show balOf (Map.del s.ownerEarned o) o2 = _
        unfold balOf; rw [Map.get_del_other _ _ _ (fun e => ho2 e.symm)]
  · by_cases hlt : balOf s.ownerEarned o < balOf s.earned pv
    · have hrec : withdrawRecords s o pv = .error (.panic "negative coin amount") := by
        unfold withdrawRecords; rw [if_pos hp, if_neg heq, if_pos hlt]
      rw [hrec] at h; simp at h
    · have hrec : withdrawRecords s o pv =
          .ok ({ s with earned := Map.del s.earned pv,
                        ownerEarned := Map.set s.ownerEarned o (balOf s.ownerEarned o - balOf s.earned pv) }, balOf s.earned pv) := by
        unfold withdrawRecords; rw [if_pos hp, if_neg heq, if_neg hlt]
      rw [hrec] at h ⊢
      dsimp only at h ⊢
      split at h; · simp [fail] at h
      rename_i hdst
      rw [if_neg hdst]
      cases hs : bankSend s.bank s.cfg.escrow ((Map.get s.withdraw o).getD o) (balOf s.earned pv) with
      | none => rw [hs] at h; simp [fail] at h
      | some bank' =>
        refine ⟨hown, rfl, rfl, ?_, ?_⟩
        · show balOf (Map.set s.ownerEarned o _) o = _
          rw [balOf_set]; simp
        · intro o2 ho2
          show balOf (Map.set s.ownerEarned o _) o2 = _
          rw [balOf_set, if_neg (fun e : o = o2 => ho2 e.symm)]

/-- Withdrawing for the owner (no provider named): pays exactly the owner's recorded total to its withdrawal address,
    removes the owner's record and the records of exactly the providers it owns; every other provider's and owner's
    earnings are untouched. -/
theorem withdraw_all (hc : CfgOK cfg p) {s : State} (hr : Reachable cfg p h0 t0 s) (o : Addr)
    (h : (withdraw s o "").2.1 = .ok) :
    (withdraw s o "").2.2 = (if balOf s.ownerEarned o = 0 then [] else
        [.transfer s.cfg.escrow ((Map.get s.withdraw o).getD o) (balOf s.ownerEarned o)]) ∧
    balOf (withdraw s o "").1.ownerEarned o = 0 ∧
    (∀ o2, o2 ≠ o → balOf (withdraw s o "").1.ownerEarned o2 = balOf s.ownerEarned o2) ∧
    (∀ pv, Map.get s.owner pv = some o → balOf (withdraw s o "").1.earned pv = 0) ∧
    (∀ pv, Map.get s.owner pv ≠ some o → Map.get (withdraw s o "").1.earned pv = Map.get s.earned pv) := by
  have hB := (reachable_inv hc hr).b
  unfold withdraw at h ⊢
  have hn : ¬ (("" : Addr) ≠ "" ∧ Map.get s.owner "" ≠ some o) := fun hh => hh.1 rfl
  rw [if_neg hn] at h ⊢
  have hrec : withdrawRecords s o "" =
      .ok ({ s with earned := (providersOf s o).foldl (fun m p => Map.del m p) s.earned,
                    ownerEarned := Map.del s.ownerEarned o }, balOf s.ownerEarned o) := by
    unfold withdrawRecords; simp
  rw [hrec] at h ⊢
  dsimp only at h ⊢
  split at h; · simp [fail] at h
  rename_i hdst
  rw [if_neg hdst]
  cases hs : bankSend s.bank s.cfg.escrow ((Map.get s.withdraw o).getD o) (balOf s.ownerEarned o) with
  | none => rw [hs] at h; simp [fail] at h
  | some bank' =>
    dsimp only
    have hget : ∀ pv, Map.get ((providersOf s o).foldl (fun m p => Map.del m p) s.earned) pv =
        if pv ∈ providersOf s o then none else Map.get s.earned pv := fun pv => foldl_del_get _ _ pv
    refine ⟨rfl, ?_, ?_, ?_, ?_⟩
    · show balOf (Map.del s.ownerEarned o) o = 0
      unfold balOf; rw [Map.get_del_same]; rfl
    · intro o2 ho2
      show balOf (Map.del s.ownerEarned o) o2 = _
      unfold balOf; rw [Map.get_del_other _ _ _ (fun e => ho2 e.symm)]
    · intro pv hpv
      show balOf ((providersOf s o).foldl (fun m p => Map.del m p) s.earned) pv = 0
      unfold balOf
      rw [hget pv, if_pos ((providersOf_mem s hB o pv).mpr hpv)]; rfl
    · intro pv hpv
      show Map.get ((providersOf s o).foldl (fun m p => Map.del m p) s.earned) pv = _
      rw [hget pv, if_neg (fun hm => hpv ((providersOf_mem s hB o pv).mp hm))]

/-- Only the owner's own message changes its withdrawal address: every other operation (of anybody, and the end
    of a block) leaves it as it is. -/
theorem withdraw_address_changes_only_by_owner_message (s : State) (op : Op) (o : Addr)
    (h : Map.get (step s op).1.withdraw o ≠ Map.get s.withdraw o) : ∃ a, op = .setwd o a := by
  cases hop : op.setsWithdrawOf o with
  | false => exact absurd (step_withdraw_addr s op o hop) h
  | true =>
    cases op with
    | setwd o' a => simp [Op.setsWithdrawOf] at hop; subst hop; exact ⟨a, rfl⟩
    | _ => simp [Op.setsWithdrawOf] at hop

/-- The same over whole chains, restarts included: along every continuation of a chain by well-formed operations other
    than `o`'s own withdraw-address message, and by any number of zero-height restarts, `o`'s withdrawal address is
    what it was. -/
theorem withdraw_address_survives_everything_but_owner_message (hc : CfgOK cfg p) (o : Addr) {s s' : State}
    (hr : ReachableR cfg p h0 t0 s) (hcont : ContinuesR (fun op => op.setsWithdrawOf o = false) s s') :
    Map.get s'.withdraw o = Map.get s.withdraw o := continuesR_withdraw_addr hc o hr hcont

/-- The double bookkeeping of earnings holds in every state of a chain with restarts. -/
theorem owner_earnings_are_sum_across_restarts (hc : CfgOK cfg p) {s : State} (hr : ReachableR cfg p h0 t0 s) (o : Addr) :
    balOf s.ownerEarned o = ownedEarned s o := (reachableR_invAll hc hr).inv.m.ownerSum o

/-- The executable monitor `ownerEarnings`, which the check evaluates on every state decoded from the implementation's
    trace, reports nothing on any state of a chain of the model (restarts included): an alarm of it on an
    implementation state shows a state the model cannot reach. -/
theorem earnings_monitor_implied (hc : CfgOK cfg p) {s : State} (hr : ReachableR cfg p h0 t0 s) :
    Mon.ownerEarnings s = [] := ownerEarnings_sound (reachableR_invAll hc hr).inv

end SM.C13
