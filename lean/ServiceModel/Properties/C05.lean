import ServiceModel.Proofs.Reachable
import ServiceModel.Proofs.Debit
import ServiceModel.Proofs.DebitBlock
/-!
# C05 — Only the rightful party can act, and a message debits only its signer
-/
namespace SM.C05
open SM

/-- Updating a binding succeeds only when signed by its owner. -/
theorem update_only_by_owner (s : State) (svc : SvcName) (pv o : Addr) (dep : Option Nat) (text : Option PricingText) (qos : Nat)
    (h : (update s svc pv o dep text qos).2.1 = .ok) : ∃ b, Map.get s.bindings (svc, pv) = some b ∧ o = b.owner := by
  unfold update at h
  cases hb : Map.get s.bindings (svc, pv) with
  | none => rw [hb] at h; simp [fail] at h
  | some b =>
    rw [hb] at h; dsimp only at h
    split at h; · simp [fail] at h
    rename_i h1
    exact ⟨b, rfl, by simpa using h1⟩

theorem disable_only_by_owner (s : State) (svc : SvcName) (pv o : Addr) (h : (disable s svc pv o).2.1 = .ok) :
    ∃ b, Map.get s.bindings (svc, pv) = some b ∧ o = b.owner := by
  unfold disable at h
  cases hb : Map.get s.bindings (svc, pv) with
  | none => rw [hb] at h; simp [fail] at h
  | some b =>
    rw [hb] at h; dsimp only at h
    split at h; · simp [fail] at h
    rename_i h1
    exact ⟨b, rfl, by simpa using h1⟩

theorem enable_only_by_owner (s : State) (svc : SvcName) (pv o : Addr) (dep : Option Nat) (h : (enable s svc pv o dep).2.1 = .ok) :
    ∃ b, Map.get s.bindings (svc, pv) = some b ∧ o = b.owner := by
  unfold enable at h
  cases hb : Map.get s.bindings (svc, pv) with
  | none => rw [hb] at h; simp [fail] at h
  | some b =>
    rw [hb] at h; dsimp only at h
    split at h; · simp [fail] at h
    rename_i h1
    exact ⟨b, rfl, by simpa using h1⟩

theorem refund_only_by_owner (s : State) (svc : SvcName) (pv o : Addr) (h : (refund s svc pv o).2.1 = .ok) :
    ∃ b, Map.get s.bindings (svc, pv) = some b ∧ o = b.owner := by
  unfold refund at h
  cases hb : Map.get s.bindings (svc, pv) with
  | none => rw [hb] at h; simp [fail] at h
  | some b =>
    rw [hb] at h; dsimp only at h
    split at h; · simp [fail] at h
    rename_i h1
    exact ⟨b, rfl, by simpa using h1⟩

/-- Withdrawing the earnings of a provider succeeds only when signed by the provider's owner. -/
theorem withdraw_only_by_owner (s : State) (o pv : Addr) (hp : pv ≠ "") (h : (withdraw s o pv).2.1 = .ok) :
    Map.get s.owner pv = some o := by
  unfold withdraw at h
  split at h; · simp [fail] at h
  rename_i hauth
  by_cases hx : Map.get s.owner pv = some o
  · exact hx
  · exact absurd ⟨hp, hx⟩ hauth

/-- Pause / start / kill / update-context messages succeed only when signed by the context's consumer, and never
    for a context created by another module. -/
theorem context_message_only_by_consumer (s : State) (c : CtxId) (cons : Addr) (k : State → Out)
    (h : (ctxMsg s c cons k).2.1 = .ok) : ∃ x, Map.get s.ctxs c = some x ∧ cons = x.cons ∧ x.mod = "" := by
  unfold ctxMsg at h
  cases ha : checkAuthority s c cons true with
  | some e => rw [ha] at h; simp [fail] at h
  | none =>
    unfold checkAuthority at ha
    cases hx : Map.get s.ctxs c with
    | none => rw [hx] at ha; simp at ha
    | some x =>
      rw [hx] at ha; dsimp only at ha
      split at ha; · simp at ha
      split at ha; · simp at ha
      rename_i h1 h2
      refine ⟨x, rfl, by simpa using h1, ?_⟩
      by_cases hm : x.mod = ""
      · exact hm
      · exact absurd ⟨rfl, hm⟩ h2

/-- A response is accepted only from the provider the request was addressed to. -/
theorem respond_only_by_provider (s : State) (r : ReqId) (pv : Addr) (code : Nat) (out : OutKind)
    (h : (respond s r pv code out).2.1 = .ok) : ∃ q, Map.get s.reqs r = some q ∧ pv = q.prov := by
  unfold respond at h
  cases hq : Map.get s.reqs r with
  | none => rw [hq] at h; simp [fail] at h
  | some q =>
    rw [hq] at h; dsimp only at h
    cases hx : Map.get s.ctxs r.ctx with
    | none => rw [hx] at h; simp [fail] at h
    | some x =>
      rw [hx] at h; dsimp only at h
      split at h; · simp [fail] at h
      rename_i h1
      exact ⟨q, rfl, by simpa using h1⟩

/-- Binding a provider that already belongs to another owner is rejected; binding a service reserved by a module is rejected. -/
theorem bind_respects_ownership (s : State) (svc : SvcName) (pv o : Addr) (dep : Option Nat) (text : PricingText) (qos : Nat)
    (h : (bind s svc pv o dep text qos).2.1 = .ok) :
    s.cfg.modsvc ≠ some svc ∧ (∀ o2, Map.get s.owner pv = some o2 → o2 = o) := by
  unfold bind at h
  split at h; · simp [fail] at h
  split at h; · simp [fail] at h
  split at h; · simp [fail] at h
  dsimp only at h
  split at h; · simp [fail] at h
  rename_i h1 _ _ h4
  refine ⟨h1, fun o2 ho2 => ?_⟩
  rw [ho2] at h4
  simp at h4
  exact h4
end SM.C05

namespace SM.C05
open SM

theorem bankSend_ge {b b' : Bank} {src dst x : Addr} {amt : Nat} (h : bankSend b src dst amt = some b') (hx : x ≠ src) :
    balOf b.bal x ≤ balOf b'.bal x := by
  rw [bankSend_bal h x]
  by_cases hsd : src = dst
  · simp [hsd]
  · simp only [hsd, if_false, hx]
    split <;> omega

/-- the balance of `a` is not lowered -/
def NotDebited (s s' : State) (a : Addr) : Prop := s.bal a ≤ s'.bal a

/-- `settle` moves coins only out of the module's own accounts. -/
theorem settle_debits_only_module {s s1 : State} {r : ReqId} {svc : SvcName} {cons : Addr} {q : Req} {prov : Addr} {out : OutKind}
    {e1 : List Effect} (h : settle s r svc cons q prov out = .ok (s1, e1)) (a : Addr) (ha : ¬ s.modAcct a) :
    balOf s.bank.bal a ≤ balOf s1.bank.bal a := by
  have hae : a ≠ s.cfg.escrow := fun e => ha (Or.inl e)
  have had : a ≠ s.cfg.deposit := fun e => ha (Or.inr (Or.inl e))
  unfold settle at h
  split at h
  · cases hs : slash s r svc q.prov with
    | bankErr => rw [hs] at h; simp at h
    | overflow => rw [hs] at h; simp at h
    | done s2 e2 =>
      rw [hs] at h; dsimp only at h
      cases hb : bankSend s2.bank s2.cfg.escrow cons q.fee with
      | none => rw [hb] at h; simp at h
      | some bank' =>
        rw [hb] at h; simp only [Except.ok.injEq, Prod.mk.injEq] at h
        obtain ⟨h1, _⟩ := h; subst h1
        have hcfg := slash_cfg hs
        have h2 : balOf s.bank.bal a ≤ balOf s2.bank.bal a := by
          unfold slash at hs
          cases hbb : Map.get s.bindings (svc, q.prov) with
          | none => rw [hbb] at hs; simp at hs; rw [← hs.1]; exact Nat.le_refl _
          | some b =>
            rw [hbb] at hs; dsimp only at hs
            split at hs; · simp at hs
            cases hburn : bankBurn s.bank s.cfg.deposit (b.deposit * s.params.slash / decUnit) with
            | none => rw [hburn] at hs; simp at hs
            | some bk =>
              rw [hburn] at hs; dsimp only at hs
              have : balOf bk.bal a = balOf s.bank.bal a := by rw [bankBurn_bal hburn]; simp [had]
              split at hs
              · cases hmd : minDeposit s.params (storedPricing s svc q.prov) with
                | none => rw [hmd] at hs; simp at hs
                | some md => rw [hmd] at hs; dsimp only at hs; injection hs with hs1 _; subst hs1; exact Nat.le_of_eq this.symm
              · injection hs with hs1 _; subst hs1; exact Nat.le_of_eq this.symm
        have h3 := bankSend_ge hb (x := a) (by rw [hcfg]; exact hae)
        exact Nat.le_trans h2 h3
  · cases hae2 : addEarned s prov q.fee with
    | none => rw [hae2] at h; simp at h
    | some res =>
      rw [hae2] at h; simp only [Except.ok.injEq] at h; subst h
      unfold addEarned at hae2; dsimp only at hae2
      cases hb : bankSend s.bank s.cfg.escrow s.cfg.collector (q.fee * s.params.tax / decUnit) with
      | none => rw [hb] at hae2; simp at hae2
      | some bank' =>
        rw [hb] at hae2; dsimp only at hae2
        split at hae2
        · simp at hae2
        · simp only [Option.some.injEq, Prod.mk.injEq] at hae2
          obtain ⟨h1, _⟩ := hae2; subst h1
          exact bankSend_ge hb hae

/-- No message lowers the balance of an ordinary account other than its signer. (`owner`/`consumer`/`provider`
    below is the signer of the respective message.) -/
theorem bind_debits_only_signer (s : State) (svc : SvcName) (pv o : Addr) (dep : Option Nat) (text : PricingText) (qos : Nat)
    (a : Addr) (ha : a ≠ o) : s.bal a ≤ (bind s svc pv o dep text qos).1.bal a := by
  unfold bind; (try dsimp only)
  repeat' split
  all_goals first
    | exact Nat.le_refl _
    | (rename_i hs _; exact bankSend_ge hs ha)
    | (rename_i hs; exact bankSend_ge hs ha)

theorem refund_debits_only_module (s : State) (svc : SvcName) (pv o : Addr) (a : Addr) (ha : ¬ s.modAcct a) :
    s.bal a ≤ (refund s svc pv o).1.bal a := by
  unfold refund; (try dsimp only)
  repeat' split
  all_goals first
    | exact Nat.le_refl _
    | (rename_i hs; exact bankSend_ge hs (fun e => ha (Or.inr (Or.inl e))))

theorem withdraw_debits_only_module (s : State) (o pv : Addr) (a : Addr) (ha : ¬ s.modAcct a) :
    s.bal a ≤ (withdraw s o pv).1.bal a := by
  unfold withdraw
  split; · exact Nat.le_refl _
  cases hw : withdrawRecords s o pv with
  | error r => exact Nat.le_refl _
  | ok res =>
    obtain ⟨s1, amt⟩ := res
    dsimp only
    split; · exact Nat.le_refl _
    cases hs : bankSend s1.bank s.cfg.escrow ((Map.get s.withdraw o).getD o) amt with
    | none => exact Nat.le_refl _
    | some bank' =>
      have hb1 : s1.bank = s.bank := by
        unfold withdrawRecords at hw
        repeat' split at hw
        all_goals first
          | (simp at hw; done)
          | (simp only [Except.ok.injEq, Prod.mk.injEq] at hw; rw [← hw.1])
      rw [hb1] at hs
      exact bankSend_ge hs (fun e => ha (Or.inl e))

theorem respond_debits_only_module (s : State) (r : ReqId) (pv : Addr) (code : Nat) (out : OutKind) (a : Addr)
    (ha : ¬ s.modAcct a) : s.bal a ≤ (respond s r pv code out).1.bal a := by
  unfold respond
  cases hq : Map.get s.reqs r with
  | none => exact Nat.le_refl _
  | some q =>
    dsimp only
    cases hx : Map.get s.ctxs r.ctx with
    | none => exact Nat.le_refl _
    | some x0 =>
      dsimp only
      split; · exact Nat.le_refl _
      split; · exact Nat.le_refl _
      cases hs : settle s r x0.svc x0.cons q pv out with
      | error res => exact Nat.le_refl _
      | ok res =>
        obtain ⟨s1, e1⟩ := res
        dsimp only
        have := settle_debits_only_module hs a ha
        split <;> exact this
end SM.C05

namespace SM.C05
open SM

theorem dep_send_ge {s : State} {o : Addr} {dep : Option Nat} {bank' : Bank} {a : Addr}
    (hsend : (if dep.isSome = true then bankSend s.bank o s.cfg.deposit (dep.getD 0) else some s.bank) = some bank')
    (ha : a ≠ o) : balOf s.bank.bal a ≤ balOf bank'.bal a := by
  cases dep with
  | none => simp at hsend; subst hsend; exact Nat.le_refl _
  | some d => simp at hsend; exact bankSend_ge hsend ha

theorem update_debits_only_signer (s : State) (svc : SvcName) (pv o : Addr) (dep : Option Nat) (text : Option PricingText) (qos : Nat)
    (a : Addr) (ha : a ≠ o) : s.bal a ≤ (update s svc pv o dep text qos).1.bal a := by
  unfold update
  cases hb : Map.get s.bindings (svc, pv) with
  | none => exact Nat.le_refl _
  | some b =>
    dsimp only
    split; · exact Nat.le_refl _
    split; · exact Nat.le_refl _
    split; · exact Nat.le_refl _
    cases hnt : newTerms s svc pv text with
    | error r => exact Nat.le_refl _
    | ok pr =>
      dsimp only
      split; · exact Nat.le_refl _
      cases hsend : (if dep.isSome = true then bankSend s.bank o s.cfg.deposit (dep.getD 0) else some s.bank) with
      | none => exact Nat.le_refl _
      | some bank' =>
        dsimp only
        split <;> exact dep_send_ge hsend ha

theorem enable_debits_only_signer (s : State) (svc : SvcName) (pv o : Addr) (dep : Option Nat)
    (a : Addr) (ha : a ≠ o) : s.bal a ≤ (enable s svc pv o dep).1.bal a := by
  unfold enable
  cases hb : Map.get s.bindings (svc, pv) with
  | none => exact Nat.le_refl _
  | some b =>
    dsimp only
    split; · exact Nat.le_refl _
    split; · exact Nat.le_refl _
    split; · exact Nat.le_refl _
    split
    · exact Nat.le_refl _
    · split; · exact Nat.le_refl _
      cases hsend : (if dep.isSome = true then bankSend s.bank o s.cfg.deposit (dep.getD 0) else some s.bank) with
      | none => exact Nat.le_refl _
      | some bank' => exact dep_send_ge hsend ha

/-! ### the end of a block -/
/-- Expiry processing (phase 1 of the end blocker, over any list of queue entries) lowers no balance outside the
    module's two custody accounts: refunds leave the escrow, slashed coins are burned from the deposit account. -/
theorem expiry_lowers_only_custody (s : State) (l : List CtxId) (a : Addr) (ha : ¬ s.custody a) :
    balOf s.bank.bal a ≤ balOf (foldH expireBatch s l).s.bank.bal a :=
  (expirePhase_balMono s l).2 a ha (by simp)

/-- The new-batch handler of a context lowers only the balance of that context's consumer (by the price of the batch
    it issues, `C06.batch_issued`; nothing when the batch is skipped or the context is paused for lack of funds). -/
theorem new_batch_lowers_only_its_consumer (s : State) (c : CtxId) (x : Ctx) (hx : Map.get s.ctxs c = some x)
    (a : Addr) (ha : ¬ s.custody a) (hne : a ≠ x.cons) :
    balOf s.bank.bal a ≤ balOf (newBatch s c).s.bank.bal a :=
  (newBatch_balMono s c x hx).2 a ha (by simpa using hne)

/-- The end of a block as a whole (both phases, any number of expiring and starting batches), in every reachable
    state: an account that is neither a custody account nor the consumer of a context existing when the block ends
    holds at least as much afterwards as before — the end blocker only spends custody money and charges consumers
    for their own batches. -/
theorem end_of_block_lowers_only_custody_and_consumers {cfg : Config} {p : Params} {h0 t0 : Int} (hc : CfgOK cfg p)
    {s : State} (hr : Reachable cfg p h0 t0 s) (dt : Int) (a : Addr) (ha : ¬ s.custody a)
    (hcons : ∀ c x, Map.get s.ctxs c = some x → x.cons ≠ a) :
    balOf s.bank.bal a ≤ balOf (endBlock s dt).s.bank.bal a := by
  refine (endBlock_balMono s dt (reachable_inv hc hr)).2 a ha (fun hin => ?_)
  obtain ⟨c, x, hg, he⟩ := (mem_consumersOf_iff s a).mp hin
  exact hcons c x hg he

end SM.C05
