import ServiceModel.Proofs.CtxEvol
/-!
# C09 — Request contexts follow their lifecycle state machine
-/
namespace SM.C09
open SM

variable {cfg : Config} {p : Params} {h0 t0 : Int}

/-- Pause moves only a repeated running context to paused. -/
theorem pause_transition (s : State) (c : CtxId) (cons : Addr) (h : (pauseK s c cons).2.1 = .ok) :
    ∃ x, Map.get s.ctxs c = some x ∧ x.rep = true ∧ x.state = .running ∧
      Map.get (pauseK s c cons).1.ctxs c = some { x with state := .paused } := by
  unfold pauseK at h ⊢
  cases hx : Map.get s.ctxs c with
  | none => rw [hx] at h; simp [fail] at h
  | some x =>
    rw [hx] at h; dsimp only at h ⊢
    split at h; · simp [fail] at h
    split at h; · simp [fail] at h
    split at h; · simp [fail] at h
    rename_i h1 h2
    rw [if_neg h1, if_neg h2]
    exact ⟨x, rfl, by simpa using h1, by simpa using h2, Map.get_set_same _ _ _⟩

/-- Start moves only a paused context to running. -/
theorem start_transition (s : State) (c : CtxId) (cons : Addr) (h : (startK s c cons).2.1 = .ok) :
    ∃ x, Map.get s.ctxs c = some x ∧ x.state = .paused ∧
      Map.get (startK s c cons).1.ctxs c = some { x with state := .running } := by
  unfold startK at h ⊢
  cases hx : Map.get s.ctxs c with
  | none => rw [hx] at h; simp [fail] at h
  | some x =>
    rw [hx] at h; dsimp only at h ⊢
    split at h; · simp [fail] at h
    split at h; · simp [fail] at h
    rename_i h1
    rw [if_neg h1]
    refine ⟨x, rfl, by simpa using h1, ?_⟩
    split
    · show Map.get (Map.set s.ctxs c _) c = _; exact Map.get_set_same _ _ _
    · show Map.get (Map.set s.ctxs c _) c = _; exact Map.get_set_same _ _ _

/-- Kill moves only a repeated context to completed. -/
theorem kill_transition (s : State) (c : CtxId) (cons : Addr) (h : (killK s c cons).2.1 = .ok) :
    ∃ x, Map.get s.ctxs c = some x ∧ x.rep = true ∧
      Map.get (killK s c cons).1.ctxs c = some { x with state := .completed } := by
  unfold killK at h ⊢
  cases hx : Map.get s.ctxs c with
  | none => rw [hx] at h; simp [fail] at h
  | some x =>
    rw [hx] at h; dsimp only at h ⊢
    split at h; · simp [fail] at h
    split at h; · simp [fail] at h
    rename_i h1
    rw [if_neg h1]
    exact ⟨x, rfl, by simpa using h1, Map.get_set_same _ _ _⟩

/-- A completed context is never updated. -/
theorem completed_not_updated (s : State) (c : CtxId) (cons : Addr) (provs : List Addr) (thr : Nat) (cap : Option Nat)
    (timeout : Int) (freq : Nat) (total : Int) (x : Ctx) (hx : Map.get s.ctxs c = some x) (hc : x.state = .completed) :
    (updateK s c cons provs thr cap timeout freq total).2.1 ≠ .ok := by
  unfold updateK
  rw [hx]; dsimp only
  split; · simp [fail]
  rw [if_pos hc]; simp [fail]

/-- A consumer's inability to pay a batch moves running to paused without advancing the counter and without issuing anything. -/
theorem unfunded_pause (s : State) (c : CtxId) (x : Ctx) (hsuper : x.super = false)
    (hel : (eligible s x).length > 0 ∧ (eligible s x).length ≥ x.thr)
    (hpoor : bankSend s.bank x.cons s.cfg.escrow (sumPrices (eligible s x)) = none) :
    (startOrSkip s c x).1 = setCtx s c { x with bstate := .completed, state := .paused } := by
  unfold startOrSkip
  rw [if_pos hel, if_neg (by simp [hsuper]), hpoor]

/-- Over any well-formed step, every context present afterwards either was created by this very step (its id was
    never used before) or evolved from the context with the same id: its service, consumer, super-mode flag, repeat
    flag and owning module are unchanged, its batch counter did not decrease, and `completed` is final. -/
theorem context_evolution (hc : CfgOK cfg p) {s : State} (hr : Reachable cfg p h0 t0 s) (op : Op) (hw : WF s op)
    (c : CtxId) (y : Ctx) (hy : Map.get (step s op).1.ctxs c = some y) :
    (∃ x, Map.get s.ctxs c = some x ∧ CtxEvol x y) ∨ c ∉ s.usedIds := by
  have h := reachable_inv hc hr
  rcases step_state s op with h1 | ⟨h1, h2, _⟩
  · rw [h1] at hy; left; exact ⟨y, hy, CtxEvol.refl y⟩
  · rw [h1] at hy
    have key : CtxsEvol s (exec s op).1 ∨ (∃ id, id ∉ s.usedIds ∧ ∀ c2, c2 ≠ id → Map.get (exec s op).1.ctxs c2 = Map.get s.ctxs c2) := by
      cases op with
      | fund a n => left; exact ctxsEvol_of_eq rfl
      | xfer a b n =>
        left
        show CtxsEvol s (match bankSend s.bank a b n with
          | none => fail s Err.insufficientFunds
          | some bank' => ({ s with bank := bank' }, Res.ok, [])).1
        cases bankSend s.bank a b n <;> exact ctxsEvol_of_eq rfl
      | define n a ok => left; show CtxsEvol s (define s n a).1; unfold define; split <;> exact ctxsEvol_of_eq rfl
      | bind svc pv o dep text qos =>
        left
        show CtxsEvol s (match text with
          | some t => bind s svc pv o dep t qos
          | none => (s, Res.invalid, [])).1
        cases text with
        | none => exact CtxsEvol.refl s
        | some t => exact ctxsEvol_of_eq (bind_frame s svc pv o dep t qos).2.2.2.1
      | update svc pv o dep text qos => left; exact ctxsEvol_of_eq (update_frame s svc pv o dep text qos).2.2.2.1
      | setwd o a => left; exact ctxsEvol_of_eq rfl
      | disable svc pv o => left; exact ctxsEvol_of_eq (disable_frame s svc pv o).2.2.2.1
      | enable svc pv o dep => left; exact ctxsEvol_of_eq (enable_frame s svc pv o dep).2.2.2.1
      | refund svc pv o => left; exact ctxsEvol_of_eq (refund_frame s svc pv o).2.2.2.1
      | call id svc provs cons cap timeout super rep freq total inputOk =>
        right
        obtain ⟨_, hfresh, hms⟩ : ¬ s.modAcct cons ∧ id ∉ s.usedIds ∧ s.cfg.modsvc ≠ some svc := hw
        refine ⟨id, hfresh, ?_⟩
        show ∀ c2, c2 ≠ id → Map.get (if s.cfg.modsvc = some svc then panicOut s "module-service call: outside the model"
          else createCtx s id "" svc provs cons cap timeout super rep freq total inputOk true 0).1.ctxs c2 = _
        rw [if_neg hms]
        exact createCtx_ctxs s id "" svc provs cons cap timeout super rep freq total inputOk true 0
      | modcreate id mod svc provs cons cap timeout super rep freq total inputOk running thr =>
        right
        obtain ⟨_, hfresh, _⟩ : ¬ s.modAcct cons ∧ id ∉ s.usedIds ∧ mod ≠ "" := hw
        exact ⟨id, hfresh, createCtx_ctxs s id mod svc provs cons cap timeout super rep freq total inputOk running thr⟩
      | respond r pv code out => left; exact respond_evol s r pv code out
      | pause c2 cons => left; show CtxsEvol s (ctxMsg s c2 cons _).1; unfold ctxMsg; split; exact CtxsEvol.refl s; exact pauseK_evol s c2 cons
      | start c2 cons => left; show CtxsEvol s (ctxMsg s c2 cons _).1; unfold ctxMsg; split; exact CtxsEvol.refl s; exact startK_evol s c2 cons
      | kill c2 cons => left; show CtxsEvol s (ctxMsg s c2 cons _).1; unfold ctxMsg; split; exact CtxsEvol.refl s; exact killK_evol s c2 cons
      | updatectx c2 cons provs cap timeout freq total =>
        left; show CtxsEvol s (ctxMsg s c2 cons _).1; unfold ctxMsg; split; exact CtxsEvol.refl s
        exact updateK_evol s c2 cons provs 0 cap timeout freq total
      | modpause c2 cons => left; exact pauseK_evol s c2 cons
      | modstart c2 cons => left; exact startK_evol s c2 cons
      | modkill c2 cons => left; exact killK_evol s c2 cons
      | modupdate c2 cons provs thr cap timeout freq total => left; exact updateK_evol s c2 cons provs thr cap timeout freq total
      | withdraw o pv =>
        left
        apply ctxsEvol_of_eq
        show (withdraw s o pv).1.ctxs = s.ctxs
        unfold withdraw
        split; · rfl
        cases hwr : withdrawRecords s o pv with
        | error r => rfl
        | ok res =>
          obtain ⟨s1, amt⟩ := res
          dsimp only
          have hc1 : s1.ctxs = s.ctxs := by
            unfold withdrawRecords at hwr
            repeat' split at hwr
            all_goals first
              | (simp at hwr; done)
              | (simp only [Except.ok.injEq, Prod.mk.injEq] at hwr; rw [← hwr.1])
          split; · rfl
          cases bankSend s1.bank s.cfg.escrow ((Map.get s.withdraw o).getD o) amt with
          | none => rfl
          | some bank' => exact hc1
      | endblock dt =>
        left
        show CtxsEvol s (match (endBlock s dt).panic with
          | some m => (s, Res.panic m, (endBlock s dt).effs)
          | none => ((endBlock s dt).s, Res.ok, (endBlock s dt).effs)).1
        rcases Option.eq_none_or_eq_some (endBlock s dt).panic with hp | ⟨m, hp⟩
        · simp only [hp]; exact endBlock_evol s dt h hp
        · simp only [hp]; exact CtxsEvol.refl s
    rcases key with k | ⟨id, hfresh, hsame⟩
    · left; exact k c y hy
    · by_cases hcid : c = id
      · right; rw [hcid]; exact hfresh
      · left; rw [hsame c hcid] at hy; exact ⟨y, hy, CtxEvol.refl y⟩

end SM.C09
