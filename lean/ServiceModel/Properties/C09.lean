import ServiceModel.Proofs.CtxOrigin
import ServiceModel.Proofs.ParamsStable
import ServiceModel.Proofs.OnceRestart
/-!
# C09 — Request contexts follow their lifecycle state machine
-/
namespace SM.C09
open SM

variable {cfg : Config} {p : Params} {h0 t0 : Int}

/-- Pause moves only a repeated running context to paused. -/
theorem pause_transition (s : State) (c : CtxId) (cons : Addr) (h : (pauseK s c cons).2.1 = .ok) :
    ∃ x, Map.get s.ctxs c = some x ∧ x.rep = true ∧ x.state = .running ∧
      Map.get (pauseK s c cons).1.ctxs c = some { x with state := .paused } := by
  unfold pauseK at h ⊢
  cases hx : Map.get s.ctxs c with
  | none => rw [hx] at h; simp [fail] at h
  | some x =>
    rw [hx] at h; dsimp only at h ⊢
    split at h; · simp [fail] at h
    split at h; · simp [fail] at h
    split at h; · simp [fail] at h
    rename_i h1 h2
    rw [if_neg h1, if_neg h2]
    exact ⟨x, rfl, by simpa using h1, by simpa using h2, Map.get_set_same _ _ _⟩

/-- Start moves only a paused context to running. -/
theorem start_transition (s : State) (c : CtxId) (cons : Addr) (h : (startK s c cons).2.1 = .ok) :
    ∃ x, Map.get s.ctxs c = some x ∧ x.state = .paused ∧
      Map.get (startK s c cons).1.ctxs c = some { x with state := .running } := by
  unfold startK at h ⊢
  cases hx : Map.get s.ctxs c with
  | none => rw [hx] at h; simp [fail] at h
  | some x =>
    rw [hx] at h; dsimp only at h ⊢
    split at h; · simp [fail] at h
    split at h; · simp [fail] at h
    rename_i h1
    rw [if_neg h1]
    refine ⟨x, rfl, by simpa using h1, ?_⟩
    split
    · show Map.get (Map.set s.ctxs c _) c = _; exact Map.get_set_same _ _ _
    · show Map.get (Map.set s.ctxs c _) c = _; exact Map.get_set_same _ _ _

/-- Kill moves only a repeated context to completed. -/
theorem kill_transition (s : State) (c : CtxId) (cons : Addr) (h : (killK s c cons).2.1 = .ok) :
    ∃ x, Map.get s.ctxs c = some x ∧ x.rep = true ∧
      Map.get (killK s c cons).1.ctxs c = some { x with state := .completed } := by
  unfold killK at h ⊢
  cases hx : Map.get s.ctxs c with
  | none => rw [hx] at h; simp [fail] at h
  | some x =>
    rw [hx] at h; dsimp only at h ⊢
    split at h; · simp [fail] at h
    split at h; · simp [fail] at h
    rename_i h1
    rw [if_neg h1]
    exact ⟨x, rfl, by simpa using h1, Map.get_set_same _ _ _⟩

/-- A completed context is never updated. -/
theorem completed_not_updated (s : State) (c : CtxId) (cons : Addr) (provs : List Addr) (thr : Nat) (cap : Option Nat)
    (timeout : Int) (freq : Nat) (total : Int) (x : Ctx) (hx : Map.get s.ctxs c = some x) (hc : x.state = .completed) :
    (updateK s c cons provs thr cap timeout freq total).2.1 ≠ .ok := by
  unfold updateK
  rw [hx]; dsimp only
  split; · simp [fail]
  rw [if_pos hc]; simp [fail]

/-- A consumer's inability to pay a batch moves running to paused without advancing the counter and without issuing anything. -/
theorem unfunded_pause (s : State) (c : CtxId) (x : Ctx) (hsuper : x.super = false)
    (hel : (eligible s x).length > 0 ∧ (eligible s x).length ≥ x.thr)
    (hpoor : bankSend s.bank x.cons s.cfg.escrow (sumPrices (eligible s x)) = none) :
    (startOrSkip s c x).1 = setCtx s c { x with bstate := .completed, state := .paused } := by
  unfold startOrSkip
  rw [if_pos hel, if_neg (by simp [hsuper]), hpoor]

/-- Over any well-formed step, every context present afterwards either was created by this very step (its id was
    never used before) or evolved from the context with the same id: its service, consumer, super-mode flag, repeat
    flag and owning module are unchanged, its batch counter did not decrease, and `completed` is final. -/
theorem context_evolution (hc : CfgOK cfg p) {s : State} (hr : Reachable cfg p h0 t0 s) (op : Op) (hw : WF s op)
    (c : CtxId) (y : Ctx) (hy : Map.get (step s op).1.ctxs c = some y) :
    (∃ x, Map.get s.ctxs c = some x ∧ CtxEvol x y) ∨ c ∉ s.usedIds :=
  (step_ctx_origin (reachable_inv hc hr) op hw c y hy).imp id And.left

/-- What the consumer (or the owning module) set on a context — providers, fee cap, timeout, frequency, total and
    response threshold — is the same after any step as before it, unless the step is an update aimed at that very
    context (a consumer's `MsgUpdateRequestContext`, or the owning module's call). In particular neither another
    context's operations nor the end of a block touch them. -/
theorem consumer_set_fields_change_only_by_update {cfg : Config} {p : Params} {h0 t0 : Int} (hc : CfgOK cfg p)
    {s : State} (hr : Reachable cfg p h0 t0 s) (op : Op) (hw : WF s op) (c : CtxId) (x y : Ctx)
    (hx : Map.get s.ctxs c = some x) (hy : Map.get (step s op).1.ctxs c = some y) (hnu : op.updTarget ≠ some c) :
    y.provs = x.provs ∧ y.cap = x.cap ∧ y.timeout = x.timeout ∧ y.freq = x.freq ∧ y.total = x.total ∧ y.thr = x.thr :=
  step_params_stable (reachable_inv hc hr) op hw c x y hx hy hnu

/-- A zero-height restart loses no context and invents none, and changes nothing of a context but what the preparation
    resets: every context of the old chain comes back paused with its batch completed and the two counters of that
    batch at zero — service, providers, consumer, fee cap, timeout, super-mode and repeat flags, frequency, total,
    **batch counter**, thresholds and owning module are what they were. (A completed context is *not* final over a
    restart: the preparation pauses it like every other — `ResetRequestContextsStateAndBatch` makes no exception —, so
    "completed is final" is a statement about a chain between restarts; the harness shows the same on the code.) -/
theorem context_over_restart (hc : CfgOK cfg p) {s s' : State} (hr : ReachableR cfg p h0 t0 s) {height time : Int}
    (hre : restart s height time = some s') (c : CtxId) :
    Map.get s'.ctxs c = (Map.get s.ctxs c).map resetCtx ∧
    ∀ x : Ctx, (resetCtx x).svc = x.svc ∧ (resetCtx x).provs = x.provs ∧ (resetCtx x).cons = x.cons ∧
      (resetCtx x).cap = x.cap ∧ (resetCtx x).timeout = x.timeout ∧ (resetCtx x).super = x.super ∧
      (resetCtx x).rep = x.rep ∧ (resetCtx x).freq = x.freq ∧ (resetCtx x).total = x.total ∧
      (resetCtx x).batch = x.batch ∧ (resetCtx x).bthr = x.bthr ∧ (resetCtx x).thr = x.thr ∧ (resetCtx x).mod = x.mod ∧
      (resetCtx x).state = .paused ∧ (resetCtx x).bstate = .completed :=
  ⟨restart_ctxs (reachableR_invAll hc hr) hre c,
   fun _ => ⟨rfl, rfl, rfl, rfl, rfl, rfl, rfl, rfl, rfl, rfl, rfl, rfl, rfl, rfl, rfl⟩⟩

end SM.C09
