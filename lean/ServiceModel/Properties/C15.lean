import ServiceModel.Proofs.Reachable
import ServiceModel.Proofs.Stable
import ServiceModel.Proofs.Valid
import ServiceModel.Proofs.RestartStable
/-!
# C15 — Definitions and bindings are unique, stable and consistently indexed
-/
namespace SM.C15
open SM

variable {cfg : Config} {p : Params} {h0 t0 : Int}

/-- A second definition with the same name is rejected and changes nothing. -/
theorem define_twice_rejected (s : State) (n : SvcName) (a : Addr) (d : Definition) (h : Map.get s.defs n = some d) :
    (define s n a).2.1 = .err .definitionExists ∧ (define s n a).1 = s := by
  unfold define; rw [h]; exact ⟨rfl, rfl⟩

/-- A binding exists at most once per service and provider, and only for a defined service. -/
theorem bind_twice_rejected (s : State) (svc : SvcName) (pv o : Addr) (dep : Option Nat) (text : PricingText) (qos : Nat)
    (h : (Map.get s.bindings (svc, pv)).isSome) : (bind s svc pv o dep text qos).2.1 ≠ .ok := by
  unfold bind
  split; · simp [fail]
  split; · simp [fail]
  simp [fail]

theorem bindings_only_for_defined (hc : CfgOK cfg p) {s : State} (hr : Reachable cfg p h0 t0 s) (svc : SvcName) (pv : Addr)
    (h : (Map.get s.bindings (svc, pv)).isSome) : (Map.get s.defs svc).isSome :=
  (reachable_inv hc hr).b.defined svc pv h

/-- Every provider has one owner, shared by all its bindings. -/
theorem one_owner_per_provider (hc : CfgOK cfg p) {s : State} (hr : Reachable cfg p h0 t0 s) (svc1 svc2 : SvcName) (pv : Addr)
    (b1 b2 : Binding) (h1 : Map.get s.bindings (svc1, pv) = some b1) (h2 : Map.get s.bindings (svc2, pv) = some b2) :
    b1.owner = b2.owner ∧ Map.get s.owner pv = some b1.owner := by
  have hB := (reachable_inv hc hr).b
  have e1 := hB.ownerOf svc1 pv b1 h1
  have e2 := hB.ownerOf svc2 pv b2 h2
  rw [e1] at e2; injection e2 with e2
  exact ⟨e2, e1⟩

/-- The ownership indexes are exactly the projections of the bindings. -/
theorem owner_indexes_are_projections (hc : CfgOK cfg p) {s : State} (hr : Reachable cfg p h0 t0 s) :
    (∀ o pv, (o, pv) ∈ s.ownerProv ↔ Map.get s.owner pv = some o) ∧
    (∀ o svc pv, (o, svc, pv) ∈ s.ownerBind ↔ ∃ b, Map.get s.bindings (svc, pv) = some b ∧ b.owner = o) ∧
    (∀ pv o, Map.get s.owner pv = some o → ∃ svc, (Map.get s.bindings (svc, pv)).isSome) :=
  ⟨(reachable_inv hc hr).b.provIdx, (reachable_inv hc hr).b.bindIdx, (reachable_inv hc hr).b.ownerHas⟩

/-- The stored price terms always correspond to the binding's published pricing text (and satisfy the pricing rules). -/
theorem stored_terms_match_text (hc : CfgOK cfg p) {s : State} (hr : Reachable cfg p h0 t0 s) (k : SvcName × Addr) (b : Binding)
    (hb : Map.get s.bindings k = some b) :
    ∃ pr, Map.get s.pricing k = some pr ∧ parsePricing b.text = .ok pr ∧ validPricing pr = true :=
  (reachable_inv hc hr).b.priced k b hb

theorem terms_only_for_bindings (hc : CfgOK cfg p) {s : State} (hr : Reachable cfg p h0 t0 s) (k : SvcName × Addr)
    (h : (Map.get s.pricing k).isSome) : (Map.get s.bindings k).isSome := (reachable_inv hc hr).b.pricingOnly k h

/-! ### stability over histories (no hypothesis on the state or on the operations) -/
/-- A service definition, once created, never changes or disappears: after any sequence of operations the very
    same record is stored. -/
theorem definition_never_changes (s : State) (ops : List Op) (n : SvcName) (d : Definition)
    (h : Map.get s.defs n = some d) : Map.get (after s ops).defs n = some d := (stable_after ops s).defs n d h

/-- A binding never disappears and keeps its service, provider (its key) and owner for ever. -/
theorem binding_identity_never_changes (s : State) (ops : List Op) (k : SvcName × Addr) (b : Binding)
    (h : Map.get s.bindings k = some b) : ∃ b', Map.get (after s ops).bindings k = some b' ∧ b'.owner = b.owner :=
  (stable_after ops s).bind k b h

/-- A provider has one owner for life. -/
theorem provider_owner_for_life (s : State) (ops : List Op) (pv o : Addr) (h : Map.get s.owner pv = some o) :
    Map.get (after s ops).owner pv = some o := (stable_after ops s).owner pv o h

/-- Every stored definition and binding satisfies the module's own validity rules (on the fields the model
    carries: author, names, provider, owner, QoS): records are written only by messages that passed stateless
    validation, and the later rewrites of a binding keep its key, owner and a positive QoS. -/
theorem stored_records_valid {s : State} (hr : Reachable cfg p h0 t0 s) :
    (∀ n d, Map.get s.defs n = some d → defValid n d = true) ∧
    (∀ k b, Map.get s.bindings k = some b → bindingValid k b = true) :=
  ⟨(recOK hr).defs, (recOK hr).binds⟩

/-! ### the same over chains that go through zero-height restarts -/
/-- Over every continuation of a chain by well-formed operations **and any number of zero-height restarts**
    (`ContinuesR`), from every state such a chain reaches: a definition stays the very same record, a binding stays
    with its service, provider and owner, and a provider keeps its owner. (A restart is not an operation of `after`;
    it rebuilds the store from the exported genesis, and gives back the same records: `C19.restart_gives_back_the_same_records`.) -/
theorem stable_across_restarts (hc : CfgOK cfg p) {s s' : State} (hr : ReachableR cfg p h0 t0 s)
    (hcont : ContinuesR (fun _ => True) s s') :
    (∀ n d, Map.get s.defs n = some d → Map.get s'.defs n = some d) ∧
    (∀ k b, Map.get s.bindings k = some b → ∃ b', Map.get s'.bindings k = some b' ∧ b'.owner = b.owner) ∧
    (∀ pv o, Map.get s.owner pv = some o → Map.get s'.owner pv = some o) :=
  let h := continuesR_stable hc hr hcont
  ⟨h.defs, h.bind, h.owner⟩

/-- The indexes, the price terms and the validity of the stored records hold in every state of a chain with restarts. -/
theorem indexes_and_terms_across_restarts (hc : CfgOK cfg p) {s : State} (hr : ReachableR cfg p h0 t0 s) :
    (∀ o pv, (o, pv) ∈ s.ownerProv ↔ Map.get s.owner pv = some o) ∧
    (∀ o svc pv, (o, svc, pv) ∈ s.ownerBind ↔ ∃ b, Map.get s.bindings (svc, pv) = some b ∧ b.owner = o) ∧
    (∀ k b, Map.get s.bindings k = some b →
      ∃ pr, Map.get s.pricing k = some pr ∧ parsePricing b.text = .ok pr ∧ validPricing pr = true) ∧
    (∀ n d, Map.get s.defs n = some d → defValid n d = true) ∧
    (∀ k b, Map.get s.bindings k = some b → bindingValid k b = true) :=
  let h := reachableR_invAll hc hr
  ⟨h.inv.b.provIdx, h.inv.b.bindIdx, h.inv.b.priced, h.recs.defs, h.recs.binds⟩

end SM.C15
