import ServiceModel.Proofs.Reachable
/-!
# C07 — The fee charged follows the provider's published pricing
-/
namespace SM.C07
open SM

/-- rounding never exceeds the quotient by more than one unit in the last place -/
theorem chopRound_le (x : Nat) : chopRound x ≤ x / decUnit + 1 := by
  unfold chopRound; dsimp only
  split
  · omega
  · split
    · omega
    · split <;> omega

theorem chopRound_ge (x : Nat) : x / decUnit ≤ chopRound x := by
  unfold chopRound; dsimp only
  split
  · omega
  · split
    · omega
    · split <;> omega

theorem chopRound_mul_unit (m : Nat) : chopRound (m * decUnit) = m := by
  unfold chopRound
  have h1 : m * decUnit / decUnit = m := Nat.mul_div_cancel _ (by decide)
  have h2 : m * decUnit % decUnit = 0 := Nat.mul_mod_left _ _
  simp only [h1, h2]
  simp [decUnit]

/-- a whole number times a decimal is exact (no rounding happens in the first product) -/
theorem decMul_ofNat (n d : Nat) : decMul (decOfNat n) d = n * d := by
  unfold decMul decOfNat chopRound
  have h1 : n * decUnit * d / decUnit = n * d := by
    rw [Nat.mul_right_comm]; exact Nat.mul_div_cancel _ (by decide)
  have h2 : n * decUnit * d % decUnit = 0 := by
    rw [Nat.mul_right_comm]; exact Nat.mul_mod_left _ _
  simp only [h1, h2]
  simp [decUnit]

/-- The fee formula: base price × time discount × volume discount, in the chain's 18-digit fixed point
    (the first product is exact, the second is rounded half-to-even), truncated, and never less than one unit. -/
theorem fee_formula (pr : Pricing) (time : Int) (vol : Nat) :
    priceOf pr time vol =
      max 1 (chopRound (pr.base * discT pr.promT time * discV pr.promV vol) / decUnit) := by
  unfold priceOf priceDec decTrunc
  rw [decMul_ofNat]
  unfold decMul
  dsimp only
  split
  · rename_i hlt
    have : chopRound (pr.base * discT pr.promT time * discV pr.promV vol) / decUnit = 0 := Nat.div_eq_of_lt hlt
    rw [this]; simp [decUnit]
  · rename_i hge
    have : 1 ≤ chopRound (pr.base * discT pr.promT time * discV pr.promV vol) / decUnit := by
      have : decUnit ≤ chopRound (pr.base * discT pr.promT time * discV pr.promV vol) := by omega
      exact (Nat.le_div_iff_mul_le (by decide)).mpr (by omega)
    omega

theorem fee_at_least_one (pr : Pricing) (time : Int) (vol : Nat) : 1 ≤ priceOf pr time vol := by
  rw [fee_formula]; omega

/-- the time discount is 1 or the discount of one of the promotions -/
theorem discT_cases (ps : List PromT) (t : Int) : discT ps t = decUnit ∨ ∃ q, q ∈ ps ∧ discT ps t = q.disc ∧ q.start ≤ t ∧ t < q.stop := by
  induction ps with
  | nil => left; rfl
  | cons q rest ih =>
    unfold discT
    split
    · rename_i h; right; exact ⟨q, by simp, rfl, h.1, h.2⟩
    · rcases ih with h | ⟨q2, h1, h2, h3⟩
      · left; exact h
      · right; exact ⟨q2, List.mem_cons_of_mem _ h1, h2, h3⟩

/-- the time discount in effect: the first promotion whose window `[start, end)` contains the block time -/
theorem discT_first (ps : List PromT) (t : Int) (q : PromT) (pre : List PromT) (post : List PromT)
    (hps : ps = pre ++ q :: post) (hin : q.start ≤ t ∧ t < q.stop)
    (hpre : ∀ r, r ∈ pre → ¬ (r.start ≤ t ∧ t < r.stop)) : discT ps t = q.disc := by
  subst hps
  induction pre with
  | nil => simp [discT, hin]
  | cons r rest ih =>
    simp only [List.cons_append, discT]
    rw [if_neg (hpre r (by simp))]
    exact ih (fun r2 hr2 => hpre r2 (List.mem_cons_of_mem _ hr2))

theorem discT_none (ps : List PromT) (t : Int) (h : ∀ r, r ∈ ps → ¬ (r.start ≤ t ∧ t < r.stop)) : discT ps t = decUnit := by
  induction ps with
  | nil => rfl
  | cons r rest ih =>
    simp only [discT]
    rw [if_neg (h r (by simp))]
    exact ih (fun r2 hr2 => h r2 (List.mem_cons_of_mem _ hr2))

/-- the volume discount is 1 or the discount of one of the promotions -/
theorem discV_mem (ps : List PromV) (v : Nat) : discV ps v = decUnit ∨ ∃ q, q ∈ ps ∧ discV ps v = q.disc := by
  unfold discV
  have : ∀ (rest : List PromV) (i : Nat), (∀ q, q ∈ rest → q ∈ ps) →
      discVLoop ps rest i v = decUnit ∨ ∃ q, q ∈ ps ∧ discVLoop ps rest i v = q.disc := by
    intro rest
    induction rest with
    | nil => intro i _; left; rfl
    | cons q t ih =>
      intro i hsub
      unfold discVLoop
      split
      · split
        · left; rfl
        · cases hg : ps[i - 1]? with
          | none => left; rfl
          | some q2 => right; exact ⟨q2, List.mem_of_getElem? hg, rfl⟩
      · split
        · right; exact ⟨q, hsub q (by simp), rfl⟩
        · exact ih (i + 1) (fun q2 hq2 => hsub q2 (List.mem_cons_of_mem _ hq2))
  exact this ps 0 (fun q hq => hq)

/-- Because every discount lies strictly between 0 and 1, a fee never exceeds the larger of the base price and one unit. -/
theorem fee_le_base (pr : Pricing) (time : Int) (vol : Nat)
    (hT : ∀ q, q ∈ pr.promT → q.disc < decUnit) (hV : ∀ q, q ∈ pr.promV → q.disc < decUnit) :
    priceOf pr time vol ≤ max pr.base 1 := by
  rw [fee_formula]
  have h1 : discT pr.promT time ≤ decUnit := by
    rcases discT_cases pr.promT time with h | ⟨q, hq, he, _⟩
    · rw [h]; exact Nat.le_refl _
    · rw [he]; exact Nat.le_of_lt (hT q hq)
  have h2 : discV pr.promV vol ≤ decUnit := by
    rcases discV_mem pr.promV vol with h | ⟨q, hq, he⟩
    · rw [h]; exact Nat.le_refl _
    · rw [he]; exact Nat.le_of_lt (hV q hq)
  have hprod : pr.base * discT pr.promT time * discV pr.promV vol ≤ pr.base * decUnit * decUnit :=
    Nat.mul_le_mul (Nat.mul_le_mul_left _ h1) h2
  by_cases hd : discV pr.promV vol = decUnit
  · -- no volume discount: the second product is exact
    rw [hd]
    have : chopRound (pr.base * discT pr.promT time * decUnit) = pr.base * discT pr.promT time := chopRound_mul_unit _
    rw [this]
    have : pr.base * discT pr.promT time / decUnit ≤ pr.base := by
      calc pr.base * discT pr.promT time / decUnit ≤ pr.base * decUnit / decUnit :=
            Nat.div_le_div_right (Nat.mul_le_mul_left _ h1)
        _ = pr.base := Nat.mul_div_cancel _ (by decide)
    omega
  · have hlt : discV pr.promV vol < decUnit := Nat.lt_of_le_of_ne h2 hd
    -- strictly below: the rounded product stays at or below base (in 18-digit units)
    have hX : pr.base * discT pr.promT time * discV pr.promV vol / decUnit < pr.base * decUnit ∨ pr.base = 0 := by
      by_cases hb : pr.base = 0
      · right; exact hb
      · left
        apply (Nat.div_lt_iff_lt_mul (by decide)).mpr
        calc pr.base * discT pr.promT time * discV pr.promV vol
            ≤ pr.base * decUnit * discV pr.promV vol := Nat.mul_le_mul_right _ (Nat.mul_le_mul_left _ h1)
          _ < pr.base * decUnit * decUnit := Nat.mul_lt_mul_of_pos_left hlt (Nat.mul_pos (Nat.pos_of_ne_zero hb) (by decide))
    rcases hX with hX | hX
    · have := chopRound_le (pr.base * discT pr.promT time * discV pr.promV vol)
      have : chopRound (pr.base * discT pr.promT time * discV pr.promV vol) / decUnit ≤ pr.base := by
        calc chopRound (pr.base * discT pr.promT time * discV pr.promV vol) / decUnit
            ≤ (pr.base * decUnit) / decUnit := Nat.div_le_div_right (by omega)
          _ = pr.base := Nat.mul_div_cancel _ (by decide)
      omega
    · rw [hX]; simp [chopRound, decUnit]

/-- Requests made in super mode carry no fee (and the consumer pays nothing: see `C02.batch_debit`). -/
theorem super_requests_carry_no_fee (c : CtxId) (x : Ctx) (height : Int) (el : List (Addr × Nat)) (i : Nat)
    (hs : x.super = true) (r : ReqId) (q : Req) (h : (r, q) ∈ issuedPairs c x height el i) : q.fee = 0 := by
  obtain ⟨_, _, _, _, _, pr, _, hf⟩ := issuedPairs_index h
  rw [hf]; simp [hs]

/-- Each eligible provider's price is the price formula applied to the terms stored for its binding, the block
    time and the number of responses it has already delivered to that consumer for that service. -/
theorem eligible_price (s : State) (x : Ctx) (pv : Addr) (price : Nat) (h : (pv, price) ∈ eligible s x) :
    price = priceOf (storedPricing s x.svc pv) s.time ((Map.get s.volume (x.cons, x.svc, pv)).getD 0) := by
  unfold eligible at h
  obtain ⟨a, _, ha⟩ := List.mem_filterMap.mp h
  cases hb : Map.get s.bindings (x.svc, a) with
  | none => rw [hb] at ha; simp at ha
  | some b =>
    rw [hb] at ha; dsimp only at ha
    split at ha
    · split at ha
      · injection ha with ha; injection ha with h1 h2; subst h1; exact h2.symm
      · simp at ha
    · simp at ha

/-- The volume counts the accepted responses: an accepted response raises the volume of (consumer, service, provider) by exactly one. -/
theorem volume_counts_responses (s : State) (r : ReqId) (pv : Addr) (code : Nat) (out : OutKind)
    (hok : (respond s r pv code out).2.1 = .ok) :
    ∃ x, Map.get s.ctxs r.ctx = some x ∧
      Map.get (respond s r pv code out).1.volume (x.cons, x.svc, pv) = some ((Map.get s.volume (x.cons, x.svc, pv)).getD 0 + 1) := by
  unfold respond at hok ⊢
  cases hq : Map.get s.reqs r with
  | none => rw [hq] at hok; simp [fail] at hok
  | some q =>
    rw [hq] at hok; dsimp only at hok ⊢
    cases hx : Map.get s.ctxs r.ctx with
    | none => rw [hx] at hok; simp [fail] at hok
    | some x =>
      rw [hx] at hok; dsimp only at hok ⊢
      split at hok; · simp [fail] at hok
      split at hok; · simp [fail] at hok
      rename_i h1 h2
      rw [if_neg h1, if_neg h2]
      cases hs : settle s r x.svc x.cons q pv out with
      | error res => rw [hs] at hok; exact absurd hok (by
          unfold settle at hs
          repeat' split at hs
          all_goals first
            | (injection hs with hs; subst hs; simp)
            | (simp at hs; done))
      | ok res =>
        obtain ⟨s1, e1⟩ := res
        dsimp only
        obtain ⟨bank', bs, ea, oe, hshape, _⟩ := settle_shape hs
        subst hshape
        refine ⟨x, rfl, ?_⟩
        split <;> simp [setCtx, delActive]

end SM.C07
