import ServiceModel.Model.Invocation
/-!
# End of block (mirrors `abci.go`)

Two phases over snapshots of the queue entries at the current height, in ascending id
order: expired batches first, then new batches. Each handler is guarded by membership of
its queue entry, so it is the identity on any other context id.
-/
namespace SM

/-- result of an end-of-block handler: state, ordered effects, and a panic message if the
    Go code would have panicked (which halts the chain) -/
structure HRes where
  s     : State
  effs  : List Effect
  panic : Option String

def HRes.pure (s : State) : HRes := ⟨s, [], none⟩

/-- run a handler over a list, stopping at the first panic -/
def foldH {α : Type} (h : State → α → HRes) : State → List α → HRes
  | s, [] => ⟨s, [], none⟩
  | s, a :: as =>
    let r := h s a
    match r.panic with
    | some _ => r
    | none => let r' := foldH h r.s as; ⟨r'.s, r.effs ++ r'.effs, r'.panic⟩

/-- the refund of an expired request (its failure is ignored by the end blocker), then deactivation -/
def refundExpired (s1 : State) (e1 : List Effect) (x : Ctx) (q : Req) (r : ReqId) : HRes :=
  match bankSend s1.bank s1.cfg.escrow x.cons q.fee with
  | some bank' =>
    ⟨delActive { s1 with bank := bank' } x.svc q.prov q.expH r,
     e1 ++ (if q.fee = 0 then [] else [Effect.transfer s1.cfg.escrow x.cons q.fee]), none⟩
  | none => ⟨delActive s1 x.svc q.prov q.expH r, e1 ++ [Effect.xferFail s1.cfg.escrow x.cons q.fee], none⟩

/-- `expiredRequestHandler`: slash and refund (errors ignored) unless super mode, then deactivate -/
def expireReq (x : Ctx) (s : State) (r : ReqId) : HRes :=
  match Map.get s.reqs r with
  | none => ⟨{ s with activeI := FSet.rem s.activeI r }, [], none⟩     -- unreachable
  | some q =>
    if x.super then ⟨delActive s x.svc q.prov q.expH r, [], none⟩
    else
      match slash s r x.svc q.prov with
      | .overflow => ⟨s, [], some "Int overflow"⟩
      | .bankErr => refundExpired s [] x q r
      | .done s1 e1 => refundExpired s1 e1 x q r

/-- `CleanBatch`: remove every request record of the batch and the response stored under the same id -/
def cleanBatch (s : State) (c : CtxId) (batch : Nat) : State :=
  let ids := (s.reqs.filter (fun p => p.1.ctx = c ∧ p.1.batch = batch)).map (·.1)
  { s with reqs := ids.foldl (fun m r => Map.del m r) s.reqs,
           resps := ids.foldl (fun m r => Map.del m r) s.resps }

/-- first half of `expiredRequestBatchHandler`: settle what is still pending and complete the batch
    (nothing to do when the batch was already completed by its responses) -/
def expirePending (s : State) (c : CtxId) (x : Ctx) : HRes × Ctx :=
  if x.bstate ≠ .completed then
    let r := foldH (expireReq x) s (sortReqIds (s.activeI.filter (fun r => r.ctx = c ∧ r.batch = x.batch)))
    (⟨r.s, r.effs ++ (completeBatch r.s c x).2, r.panic⟩, (completeBatch r.s c x).1)
  else (HRes.pure s, x)

/-- second half: drop the expiry entry, store the context, remove it or queue its next batch, clean the batch -/
def expireTail (s : State) (c : CtxId) (x1 : Ctx) : State × List Effect :=
  let s1 := setCtx (delExpQ s c s.height) c x1
  match x1.state with
  | .completed => (cleanBatch (delCtx s1 c) c x1.batch, [.ev "complete_context" c])
  | .running =>
    if x1.rep ∧ (x1.total < 0 ∨ (x1.batch : Int) < x1.total) then
      (cleanBatch (addNewQ s1 c (s.height - x1.timeout + x1.freq)) c x1.batch, [])
    else (cleanBatch (delCtx s1 c) c x1.batch, [.ev "complete_context" c])
  | .paused => (cleanBatch s1 c x1.batch, [])

/-- `expiredRequestBatchHandler` -/
def expireBatch (s : State) (c : CtxId) : HRes :=
  if (s.height, c) ∉ s.expQ then HRes.pure s
  else match Map.get s.ctxs c with
  | none => HRes.pure (delExpQ s c s.height)       -- unreachable
  | some x =>
    match (expirePending s c x).1.panic with
    | some _ => (expirePending s c x).1
    | none =>
      ⟨(expireTail (expirePending s c x).1.s c (expirePending s c x).2).1,
       (expirePending s c x).1.effs ++ (expireTail (expirePending s c x).1.s c (expirePending s c x).2).2, none⟩

/-- `FilterServiceProviders`: eligible providers in order, with their prices -/
def eligible (s : State) (x : Ctx) : List (Addr × Nat) :=
  x.provs.filterMap (fun p =>
    match Map.get s.bindings (x.svc, p) with
    | none => none
    | some b =>
      if b.avail ∧ (b.qos : Int) ≤ x.timeout then
        let price := priceOf (storedPricing s x.svc p) s.time ((Map.get s.volume (x.cons, x.svc, p)).getD 0)
        if price ≤ x.cap then some (p, price) else none
      else none)

def sumPrices (l : List (Addr × Nat)) : Nat := (l.map (·.2)).sum

/-- `InitiateRequests` for the providers `el` (fee 0 in super mode) -/
def issueReqs (s : State) (c : CtxId) (x : Ctx) (el : List (Addr × Nat)) (i : Nat) : State :=
  match el with
  | [] => s
  | (p, price) :: rest =>
    let r : ReqId := { ctx := c, batch := x.batch + 1, height := s.height.toNat, index := i }
    let q : Req := { prov := p, fee := if x.super then 0 else price, reqH := s.height, expH := s.height + x.timeout }
    let s1 := { s with reqs := Map.set s.reqs r q }
    issueReqs (addActive s1 x.svc p (s.height + x.timeout) r) c x rest (i + 1)

/-- a batch is issued: request records and markers, the counter advanced, the expiry queued -/
def issueBatch (s : State) (bank' : Bank) (c : CtxId) (x : Ctx) (el : List (Addr × Nat)) (ep : List Effect) :
    State × List Effect :=
  (addExpQ (setCtx (issueReqs { s with bank := bank' } c x el 0) c
      { x with batch := x.batch + 1, bstate := .running, respN := 0, reqN := el.length, bthr := x.thr })
    c (s.height + x.timeout),
   ep ++ [.evReqs c el.length])

/-- the outcome for a running context that is due: issue (after the consumer has paid), pause for lack
    of funds (`OnRequestContextPaused`), or skip (`SkipCurrentRequestBatch`) -/
def startOrSkip (s : State) (c : CtxId) (x : Ctx) : State × List Effect :=
  if (eligible s x).length > 0 ∧ (eligible s x).length ≥ x.thr then
    if x.super then issueBatch s s.bank c x (eligible s x) []
    else match bankSend s.bank x.cons s.cfg.escrow (sumPrices (eligible s x)) with
      | some b => issueBatch s b c x (eligible s x)
          (if sumPrices (eligible s x) = 0 then [] else [.transfer x.cons s.cfg.escrow (sumPrices (eligible s x))])
      | none =>
        (setCtx s c { x with bstate := .completed, state := .paused },
         [.xferFail x.cons s.cfg.escrow (sumPrices (eligible s x)), if x.mod ≠ "" then .statecb c else .ev "pause_context" c])
  else
    (addExpQ (setCtx s c { x with batch := x.batch + 1, bstate := .running, reqN := 0, respN := 0, bthr := x.thr })
      c (s.height + x.timeout), [])

/-- `newRequestBatchHandler` -/
def newBatch (s : State) (c : CtxId) : HRes :=
  if (s.height, c) ∉ s.newQ then HRes.pure s
  else match Map.get s.ctxs c with
  | none => HRes.pure (delNewQ s c s.height)       -- unreachable
  | some x =>
    if x.state = .running ∧ x.rep ∧ x.total ≥ 0 ∧ (x.batch : Int) ≥ x.total then
      -- the repeated total has been reached (paused in the last batch, started afterwards)
      ⟨delNewQ (delCtx s c) c s.height, [.ev "complete_context" c], none⟩
    else if x.state ≠ .running then HRes.pure (delNewQ s c s.height)
    else ⟨delNewQ (startOrSkip s c x).1 c s.height, (startOrSkip s c x).2 ++ [.ev "new_batch" c], none⟩

/-- context ids queued at height `h`, ascending -/
def queuedAt (q : FSet (Int × CtxId)) (h : Int) : List CtxId :=
  sortCtxIds ((q.filter (fun p => p.1 = h)).map (·.2))

/-- `EndBlocker`, then the next block begins (height + 1, time + dt) -/
def endBlock (s : State) (dt : Int) : HRes :=
  let r1 := foldH expireBatch s (queuedAt s.expQ s.height)
  match r1.panic with
  | some _ => r1
  | none =>
    let r2 := foldH newBatch r1.s (queuedAt r1.s.newQ r1.s.height)
    match r2.panic with
    | some _ => ⟨r2.s, r1.effs ++ r2.effs, r2.panic⟩
    | none => ⟨{ r2.s with height := r2.s.height + 1, time := r2.s.time + dt }, r1.effs ++ r2.effs, none⟩

end SM
