import ServiceModel.Model.Genesis
import ServiceModel.Inv.Defs
/-!
# The chain restarted from a zero-height export

`restart s height time` is the state of a fresh chain whose service module was initialised (`InitGenesis`)
with the genesis exported (`ExportGenesis`) after the zero-height preparation (`PrepForZeroHeightGenesis`) of `s`.
The service store is rebuilt from the exported genesis alone (`importG`): queues, requests, responses, pending
markers, request volumes and earnings are not part of the genesis and start empty. Account balances are the
bank module's own genesis: they are carried over as the preparation left them (modelled, not verified — the
harness copies the balances of the old application into the fresh one, `restart` op of SPEC.md §4.2).
`none` = the preparation or the import panics.

`usedIds` is not store content but the model's rendering of E7 (a (tx hash, message index) pair is never used twice):
it is carried over a restart as it is — the transactions of the old chain have still happened —, whereas `importG`
into an unrelated fresh chain only knows the ids of the imported contexts.
-/
namespace SM

def restart (s : State) (height time : Int) : Option State :=
  match (prep s).panic with
  | some _ => none
  | none =>
    match importG s.cfg (exportG (prep s).s) height time with
    | none => none
    | some s' => some { s' with bank := (prep s).s.bank, usedIds := s.usedIds }

/-- states reachable from an arbitrary starting state by well-formed operations -/
inductive ReachableFrom (s0 : State) : State → Prop
  | init : ReachableFrom s0 s0
  | step {s : State} (op : Op) : ReachableFrom s0 s → WF s op → ReachableFrom s0 (step s op).1

end SM
