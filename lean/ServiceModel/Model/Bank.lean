import ServiceModel.Model.Types
/-!
# The bank keeper as the module sees it (modelled, not verified): a balance map of one
denomination; a send fails exactly when the sender's balance is insufficient; a burn
lowers the module account's balance and the supply.
-/
namespace SM

def balOf (b : Map Addr Nat) (a : Addr) : Nat := (Map.get b a).getD 0

def State.bal (s : State) (a : Addr) : Nat := balOf s.bank.bal a

/-- move `amt` from `src` to `dst`; `none` = insufficient funds -/
def bankSend (b : Bank) (src dst : Addr) (amt : Nat) : Option Bank :=
  if balOf b.bal src < amt then none
  else
    let m1 := Map.set b.bal src (balOf b.bal src - amt)
    let m2 := Map.set m1 dst (balOf m1 dst + amt)
    some { b with bal := m2 }

def bankMint (b : Bank) (dst : Addr) (amt : Nat) : Bank :=
  { bal := Map.set b.bal dst (balOf b.bal dst + amt), supply := b.supply + amt }

/-- burn from a module account; `none` = insufficient funds -/
def bankBurn (b : Bank) (acct : Addr) (amt : Nat) : Option Bank :=
  if balOf b.bal acct < amt then none
  else some { bal := Map.set b.bal acct (balOf b.bal acct - amt), supply := b.supply - amt }

theorem balOf_set (m : Map Addr Nat) (a x : Addr) (n : Nat) :
    balOf (Map.set m a n) x = if a = x then n else balOf m x := by
  unfold balOf; rw [Map.get_set]; split <;> simp

theorem bankSend_bal {b b' : Bank} {src dst : Addr} {amt : Nat} (h : bankSend b src dst amt = some b') (x : Addr) :
    balOf b'.bal x =
      if src = dst then balOf b.bal x
      else if x = src then balOf b.bal x - amt
      else if x = dst then balOf b.bal x + amt
      else balOf b.bal x := by
  unfold bankSend at h
  split at h
  · simp at h
  · rename_i hge
    simp at h; subst h
    simp only [balOf_set]
    by_cases hsd : src = dst
    · subst hsd; simp
      by_cases hx : src = x
      · subst hx; simp; omega
      · simp [hx]
    · simp only [hsd, if_false]
      by_cases hx1 : x = src
      · subst hx1; simp [hsd]; intro h; exact absurd h.symm hsd
      · by_cases hx2 : x = dst
        · subst hx2; simp [hsd, hx1]
        · have h1 : ¬ dst = x := fun e => hx2 e.symm
          have h2 : ¬ src = x := fun e => hx1 e.symm
          simp [hx1, hx2, h1, h2]

theorem bankSend_supply {b b' : Bank} {src dst : Addr} {amt : Nat} (h : bankSend b src dst amt = some b') :
    b'.supply = b.supply := by
  unfold bankSend at h; split at h <;> simp at h; subst h; rfl

theorem bankSend_some_iff (b : Bank) (src dst : Addr) (amt : Nat) :
    (bankSend b src dst amt).isSome ↔ amt ≤ balOf b.bal src := by
  unfold bankSend; split <;> simp <;> omega

end SM

namespace SM

theorem bankSend_le {b b' : Bank} {src dst : Addr} {amt : Nat} (h : bankSend b src dst amt = some b') :
    amt ≤ balOf b.bal src := by
  have := (bankSend_some_iff b src dst amt).mp (by rw [h]; rfl); exact this

theorem bankSend_dst {b b' : Bank} {src dst : Addr} {amt : Nat} (h : bankSend b src dst amt = some b')
    (hne : src ≠ dst) : balOf b'.bal dst = balOf b.bal dst + amt := by
  rw [bankSend_bal h dst]; simp [hne]; intro e; exact absurd e.symm hne

theorem bankSend_src {b b' : Bank} {src dst : Addr} {amt : Nat} (h : bankSend b src dst amt = some b')
    (hne : src ≠ dst) : balOf b'.bal src = balOf b.bal src - amt := by
  rw [bankSend_bal h src]; simp [hne]

theorem bankSend_other {b b' : Bank} {src dst : Addr} {amt : Nat} (h : bankSend b src dst amt = some b')
    (x : Addr) (h1 : x ≠ src) (h2 : x ≠ dst) : balOf b'.bal x = balOf b.bal x := by
  rw [bankSend_bal h x]; simp [h1, h2]

theorem bankBurn_bal {b b' : Bank} {a : Addr} {amt : Nat} (h : bankBurn b a amt = some b') (x : Addr) :
    balOf b'.bal x = if x = a then balOf b.bal x - amt else balOf b.bal x := by
  unfold bankBurn at h; split at h
  · simp at h
  · simp at h; subst h; simp only [balOf_set]
    by_cases hx : a = x
    · subst hx; simp
    · have : ¬ x = a := fun e => hx e.symm
      simp [hx, this]

theorem bankBurn_le {b b' : Bank} {a : Addr} {amt : Nat} (h : bankBurn b a amt = some b') :
    amt ≤ balOf b.bal a := by
  unfold bankBurn at h; split at h
  · simp at h
  · omega

theorem bankBurn_supply {b b' : Bank} {a : Addr} {amt : Nat} (h : bankBurn b a amt = some b') :
    b'.supply = b.supply - amt := by
  unfold bankBurn at h; split at h <;> simp at h; subst h; rfl

theorem bankMint_bal (b : Bank) (a : Addr) (amt : Nat) (x : Addr) :
    balOf (bankMint b a amt).bal x = if x = a then balOf b.bal x + amt else balOf b.bal x := by
  unfold bankMint; simp only [balOf_set]
  by_cases hx : a = x
  · subst hx; simp
  · have : ¬ x = a := fun e => hx e.symm
    simp [hx, this]

end SM
