import ServiceModel.Model.Binding
/-!
# Request contexts, requests, responses, fees (mirrors `keeper/invocation.go`,
`keeper/fees.go`, `keeper/state_change.go`, `handler.go` for the invocation messages)
-/
namespace SM

/-- insertion sort (structural recursion, so that closed instances of the model evaluate in the kernel);
    the lists sorted here are the pending requests of one batch and the contexts queued at one height -/
def insertBy {α : Type} (le : α → α → Bool) (a : α) : List α → List α
  | [] => [a]
  | b :: t => if le a b then a :: b :: t else b :: insertBy le a t

def isort {α : Type} (le : α → α → Bool) : List α → List α
  | [] => []
  | a :: t => insertBy le a (isort le t)

theorem insertBy_perm {α : Type} (le : α → α → Bool) (a : α) (l : List α) : (insertBy le a l).Perm (a :: l) := by
  induction l with
  | nil => exact List.Perm.refl _
  | cons b t ih =>
    unfold insertBy
    split
    · exact List.Perm.refl _
    · exact (List.Perm.cons b ih).trans (List.Perm.swap a b t)

theorem isort_perm {α : Type} (le : α → α → Bool) (l : List α) : (isort le l).Perm l := by
  induction l with
  | nil => exact List.Perm.refl _
  | cons a t ih => exact (insertBy_perm le a _).trans (List.Perm.cons a ih)

def sortReqIds (l : List ReqId) : List ReqId := isort (fun a b => a.le b) l
def sortCtxIds (l : List CtxId) : List CtxId := isort (fun a b => a.le b) l

/-! ### queue primitives (each queue has an entry set and a per-context height pointer) -/
def addNewQ (s : State) (c : CtxId) (h : Int) : State :=
  { s with newQ := FSet.ins s.newQ (h, c), newH := Map.set s.newH c h }
def delNewQ (s : State) (c : CtxId) (h : Int) : State :=
  { s with newQ := FSet.rem s.newQ (h, c), newH := Map.del s.newH c }
def addExpQ (s : State) (c : CtxId) (h : Int) : State :=
  { s with expQ := FSet.ins s.expQ (h, c), expH := Map.set s.expH c h }
def delExpQ (s : State) (c : CtxId) (h : Int) : State :=
  { s with expQ := FSet.rem s.expQ (h, c), expH := Map.del s.expH c }

def setCtx (s : State) (c : CtxId) (x : Ctx) : State := { s with ctxs := Map.set s.ctxs c x }
def delCtx (s : State) (c : CtxId) : State := { s with ctxs := Map.del s.ctxs c }

def addActive (s : State) (svc : SvcName) (prov : Addr) (expH : Int) (r : ReqId) : State :=
  { s with activeB := FSet.ins s.activeB (svc, prov, expH, r), activeI := FSet.ins s.activeI r }
def delActive (s : State) (svc : SvcName) (prov : Addr) (expH : Int) (r : ReqId) : State :=
  { s with activeB := FSet.rem s.activeB (svc, prov, expH, r), activeI := FSet.rem s.activeI r }

/-! ### stateless validation of requests -/
/-- `ValidateRequest`: the first failing rule, as the error it returns -/
def validateRequest (svc : SvcName) (cap : Option Nat) (provs : List Addr) (timeout : Int)
    (rep : Bool) (freq : Nat) (total : Int) : Option Err :=
  if !validName svc then some .invalidServiceName
  else if cap = some 0 then some .invalidRequest
  else if provs.isEmpty ∨ provs.length > 10 then some .invalidRequest
  else if ¬ provs.Nodup then some .invalidProviders
  else if timeout ≤ 0 then some .invalidTimeout
  else if rep ∧ freq > 0 ∧ (freq : Int) < timeout then some .invalidRepeatedFreq
  else if rep ∧ (total < -1 ∨ total = 0) then some .invalidRepeatedTotal
  else none

def callVB (svc : SvcName) (provs : List Addr) (cons : Addr) (cap : Option Nat) (timeout : Int)
    (rep : Bool) (freq : Nat) (total : Int) : Bool :=
  cons ≠ "" && (validateRequest svc cap provs timeout rep freq total).isNone

/-- `ValidateRequestContextUpdating` -/
def validateCtxUpdate (provs : List Addr) (cap : Option Nat) (timeout : Int) (freq : Nat) (total : Int) : Option Err :=
  if provs.length > 10 then some .invalidProviders
  else if ¬ provs.Nodup then some .invalidProviders
  else if cap = some 0 then some .invalidRequest
  else if timeout < 0 then some .invalidTimeout
  else if timeout ≠ 0 ∧ freq ≠ 0 ∧ (freq : Int) < timeout then some .invalidRepeatedFreq
  else if total < -1 then some .invalidRepeatedFreq
  else none

/-- the stateless validity of a stored context (`RequestContext.Validate`): service name, providers, consumer, fee cap -/
def ctxFieldsOK (x : Ctx) : Bool :=
  validName x.svc && !x.provs.isEmpty && decide (x.provs.length ≤ 10) && x.provs.Nodup && x.cons ≠ "" && decide (0 < x.cap)

/-! ### creating a context (`CreateRequestContext`) -/
/-- the checks made only for module-owned contexts: callbacks registered, `ValidateRequest`, threshold -/
def createPre (s : State) (mod : ModName) (svc : SvcName) (provs : List Addr) (cap : Option Nat) (timeout : Int)
    (rep : Bool) (freq : Nat) (total : Int) (thr : Nat) : Option Err :=
  if mod ≠ "" then
    if mod ∉ s.cfg.modules then some .callbackNotRegistered
    else match validateRequest svc cap provs timeout rep freq total with
      | some e => some e
      | none => if thr < 1 ∨ thr > provs.length then some .invalidResponseThreshold else none
  else none

/-- the context record as first stored -/
def newCtxRec (mod : ModName) (svc : SvcName) (provs : List Addr) (cons : Addr) (capv : Nat) (timeout : Int)
    (super rep : Bool) (freq : Nat) (total : Int) (running : Bool) (thr : Nat) : Ctx := {
  svc := svc, provs := provs, cons := cons, cap := capv, timeout := timeout,
  super := super, rep := rep,
  freq := if rep then (if freq = 0 then timeout.toNat else freq) else 0,
  total := if rep then total else 0,
  batch := 0, reqN := 0, respN := 0,
  bthr := thr, bstate := .completed, state := if running then .running else .paused,
  thr := thr, mod := mod }

def createCtx (s : State) (id : CtxId) (mod : ModName) (svc : SvcName) (provs : List Addr) (cons : Addr)
    (cap : Option Nat) (timeout : Int) (super rep : Bool) (freq : Nat) (total : Int)
    (inputOk : Bool) (running : Bool) (thr : Nat) : Out :=
  match createPre s mod svc provs cap timeout rep freq total thr with
  | some e => fail s e
  | none =>
    if (Map.get s.defs svc).isNone then fail s .unknownDefinition
    else if !inputOk then fail s .invalidRequestInput
    else match cap with
    | none => fail s .invalidDeposit
    | some capv =>
      if capv = 0 then fail s .invalidDeposit
      else if timeout > s.params.maxTimeout then fail s .invalidTimeout
      else
        let x := newCtxRec mod svc provs cons capv timeout super rep freq total running thr
        let s1 := { setCtx s id x with usedIds := id :: s.usedIds }
        (if running then addNewQ s1 id s.height else s1, .ok, [])

/-! ### slash (`Keeper.Slash`) -/
def storedPricing (s : State) (svc : SvcName) (prov : Addr) : Pricing :=
  match Map.get s.pricing (svc, prov) with
  | some p => p
  | none => { base := 0, promT := [], promV := [] }

inductive SlashRes
  | done (s : State) (effs : List Effect)
  | bankErr
  | overflow

/-- slash the binding `(svc, prov)` on behalf of request `r` -/
def slash (s : State) (r : ReqId) (svc : SvcName) (prov : Addr) : SlashRes :=
  match Map.get s.bindings (svc, prov) with
  | none => .done s [.slash r prov 0]          -- unreachable: requests only go to bound providers
  | some b =>
    let amt := b.deposit * s.params.slash / decUnit
    if amt > b.deposit then .bankErr
    else match bankBurn s.bank s.cfg.deposit amt with
    | none => .bankErr
    | some bank' =>
      let b1 := { b with deposit := b.deposit - amt }
      if b1.avail then
        match minDeposit s.params (storedPricing s svc prov) with
        | none => .overflow
        | some md =>
          let b2 := if b1.deposit < md then { b1 with avail := false, disabledAt := s.time } else b1
          .done { s with bank := bank', bindings := Map.set s.bindings (svc, prov) b2 } [.slash r prov amt]
      else
        .done { s with bank := bank', bindings := Map.set s.bindings (svc, prov) b1 } [.slash r prov amt]

/-! ### earnings (`AddEarnedFee`) -/
def addTo (m : Map Addr Nat) (a : Addr) (n : Nat) : Map Addr Nat :=
  if n = 0 then m else Map.set m a (balOf m a + n)

/-- tax to the collector, the rest to the provider's and its owner's earnings; `none` = bank refused -/
def addEarned (s : State) (prov : Addr) (fee : Nat) : Option (State × List Effect) :=
  let tax := fee * s.params.tax / decUnit
  match bankSend s.bank s.cfg.escrow s.cfg.collector tax with
  | none => none
  | some bank' =>
    if tax > fee then none
    else
      let e := fee - tax
      let o := (Map.get s.owner prov).getD ""
      some ({ s with bank := bank', earned := addTo s.earned prov e, ownerEarned := addTo s.ownerEarned o e },
            if tax = 0 then [] else [.transfer s.cfg.escrow s.cfg.collector tax])

/-! ### completing a batch (`CompleteBatch`, `Callback`, `GetResponseOutputs`) -/
def batchOutputs (s : State) (c : CtxId) (batch : Nat) : List OutKind :=
  let ids := sortReqIds ((s.resps.filter (fun p => p.1.ctx = c ∧ p.1.batch = batch)).map (·.1))
  (ids.filterMap (fun r => (Map.get s.resps r).map (·.out))).filter (· ≠ .absent)

/-- returns the context with its batch marked completed and the effects (callback for module contexts).
    The callback reads the *stored* context (`stored`), as `Keeper.Callback` does. -/
def completeBatch (s : State) (c : CtxId) (x : Ctx) : Ctx × List Effect :=
  let x' := { x with bstate := .completed }
  let cb : List Effect :=
    if x.mod ≠ "" then
      match Map.get s.ctxs c with
      | some st =>
        let outs := batchOutputs s c st.batch
        [.respcb c outs (decide (outs.length < st.bthr))]
      | none => [.respcb c [] false]
    else []
  (x', cb ++ [.ev "complete_batch" c])

/-! ### respond (`AddResponse`) -/
def respondVB (prov : Addr) (code : Nat) (out : OutKind) : Bool :=
  prov ≠ "" && (code = 200 || code = 400 || code = 500) &&
  (if code = 200 then out ≠ .absent else out = .absent)

/-- settlement of an accepted response: malformed output → slash and full refund (a failure of
    either panics, as in `AddResponse`); otherwise tax and earnings -/
def settle (s : State) (r : ReqId) (svc : SvcName) (cons : Addr) (q : Req) (prov : Addr) (out : OutKind) :
    Except Res (State × List Effect) :=
  if out = .malformed then
    match slash s r svc q.prov with
    | .bankErr => .error (.panic "slash failed")
    | .overflow => .error (.panic "Int overflow")
    | .done s1 e1 =>
      match bankSend s1.bank s1.cfg.escrow cons q.fee with
      | none => .error (.panic "refund failed")
      | some bank' => .ok ({ s1 with bank := bank' },
          e1 ++ (if q.fee = 0 then [] else [.transfer s1.cfg.escrow cons q.fee]))
  else
    match addEarned s prov q.fee with
    | none => .error (.err .insufficientFunds)
    | some r => .ok r

def respond (s : State) (r : ReqId) (prov : Addr) (code : Nat) (out : OutKind) : Out :=
  match Map.get s.reqs r with
  | none => fail s .unknownRequest
  | some q =>
    match Map.get s.ctxs r.ctx with
    | none => fail s .unknownRequest
    | some x0 =>
      if prov ≠ q.prov then fail s .invalidResponse
      else if r ∉ s.activeI then fail s .invalidResponse
      else
        match settle s r x0.svc x0.cons q prov out with
        | .error res => (s, res, [])
        | .ok (s1, e1) =>
          let s2 := { s1 with resps := Map.set s1.resps r { prov := prov, cons := x0.cons, code := code, out := out } }
          let s3 := delActive s2 x0.svc prov q.expH r
          let vk := (x0.cons, x0.svc, prov)
          let s4 := { s3 with volume := Map.set s3.volume vk ((Map.get s3.volume vk).getD 0 + 1) }
          -- (the keeper re-reads the context here; nothing above writes contexts)
          let x1 := { x0 with respN := x0.respN + 1 }
          if x1.respN = x1.reqN then
            let (x2, e2) := completeBatch s4 r.ctx x1
            (setCtx s4 r.ctx x2, .ok, e1 ++ e2)
          else (setCtx s4 r.ctx x1, .ok, e1)

/-! ### lifecycle (`CheckAuthority`, `Pause/Start/Kill/UpdateRequestContext`) -/
def ctxMsgVB (cons : Addr) : Bool := cons ≠ ""

/-- `CheckAuthority` -/
def checkAuthority (s : State) (c : CtxId) (cons : Addr) (checkModule : Bool) : Option Err :=
  match Map.get s.ctxs c with
  | none => some .unknownRequestContext
  | some x =>
    if cons ≠ x.cons then some .notAuthorized
    else if checkModule ∧ x.mod ≠ "" then some .notAuthorized
    else none

/-- the keeper functions re-check the consumer for module-owned contexts -/
def keeperAuth (s : State) (c : CtxId) (x : Ctx) (cons : Addr) : Option Err :=
  if x.mod ≠ "" then checkAuthority s c cons false else none

def pauseK (s : State) (c : CtxId) (cons : Addr) : Out :=
  match Map.get s.ctxs c with
  | none => fail s .unknownRequestContext
  | some x =>
    match keeperAuth s c x cons with
    | some e => fail s e
    | none =>
      if !x.rep then fail s .requestContextNonRepeated
      else if x.state ≠ .running then fail s .requestContextNotRunning
      else (setCtx s c { x with state := .paused }, .ok, [])

def startK (s : State) (c : CtxId) (cons : Addr) : Out :=
  match Map.get s.ctxs c with
  | none => fail s .unknownRequestContext
  | some x =>
    match keeperAuth s c x cons with
    | some e => fail s e
    | none =>
      if x.state ≠ .paused then fail s .requestContextNotPaused
      else
        let s1 := setCtx s c { x with state := .running }
        let s2 := if (Map.get s1.expH c).isNone ∧ (Map.get s1.newH c).isNone then addNewQ s1 c s.height else s1
        (s2, .ok, [])

def killK (s : State) (c : CtxId) (cons : Addr) : Out :=
  match Map.get s.ctxs c with
  | none => fail s .unknownRequestContext
  | some x =>
    match keeperAuth s c x cons with
    | some e => fail s e
    | none =>
      if !x.rep then fail s .requestContextNonRepeated
      else (setCtx s c { x with state := .completed }, .ok, [])

/-- the module-owned part of `UpdateRequestContext`: re-validation and the response threshold -/
def updThr (x : Ctx) (provs : List Addr) (thr : Nat) (cap : Option Nat) (timeout : Int) (freq : Nat) (total : Int) :
    Except Err Ctx :=
  if x.mod ≠ "" then
    match validateCtxUpdate provs cap timeout freq total with
    | some e => .error e
    | none =>
      let thr' := if thr = 0 then x.thr else thr
      let provs' := if provs.isEmpty then x.provs else provs
      if thr' > provs'.length then .error .invalidResponseThreshold
      else .ok (if thr' > 0 then { x with thr := thr' } else x)
  else .ok x

/-- the field updates of `UpdateRequestContext` once every check has passed -/
def updFields (x1 : Ctx) (provs : List Addr) (cap : Option Nat) (timeout' : Int) (freq' : Nat) (total : Int) : Ctx :=
  { x1 with
    cap := match cap with | some n => n | none => x1.cap
    provs := if provs.isEmpty then x1.provs else provs
    timeout := if timeout' > 0 then timeout' else x1.timeout
    freq := if freq' > 0 then freq' else x1.freq
    total := if total ≠ 0 then total else x1.total }

def effTimeout (x : Ctx) (timeout : Int) : Int := if timeout = 0 then x.timeout else timeout
def effFreq (x : Ctx) (freq : Nat) : Nat := if freq = 0 then x.freq else freq

def updateK (s : State) (c : CtxId) (cons : Addr) (provs : List Addr) (thr : Nat) (cap : Option Nat)
    (timeout : Int) (freq : Nat) (total : Int) : Out :=
  match Map.get s.ctxs c with
  | none => fail s .unknownRequestContext
  | some x =>
    match keeperAuth s c x cons with
    | some e => fail s e
    | none =>
      if x.state = .completed then fail s .requestContextCompleted
      else
        match updThr x provs thr cap timeout freq total with
        | .error e => fail s e
        | .ok x1 =>
          if cap = some 0 then fail s .invalidDeposit      -- `validateServiceFeeCap`: a zero-amount coin is not a valid cap
          else if timeout > s.params.maxTimeout then fail s .invalidTimeout
          else
            if effTimeout x timeout < 0 ∨ (effFreq x freq : Int) < effTimeout x timeout then
              fail s .invalidRepeatedFreq   -- `freq < uint64(timeout)`
            else if total ≥ 1 ∧ total < (x.batch : Int) then fail s .invalidRepeatedTotal
            else (setCtx s c (updFields x1 provs cap (effTimeout x timeout) (effFreq x freq) total), .ok, [])

def updatectxVB (cons : Addr) (provs : List Addr) (cap : Option Nat) (timeout : Int) (freq : Nat) (total : Int) : Bool :=
  cons ≠ "" && (validateCtxUpdate provs cap timeout freq total).isNone

/-- the message handlers: `CheckAuthority(…, true)` first, then the keeper function -/
def ctxMsg (s : State) (c : CtxId) (cons : Addr) (k : State → Out) : Out :=
  match checkAuthority s c cons true with
  | some e => fail s e
  | none => k s

/-! ### withdraw (`WithdrawEarnedFees`) -/
def withdrawVB (owner : Addr) : Bool := owner ≠ ""

def providersOf (s : State) (owner : Addr) : List Addr :=
  (s.ownerProv.filter (fun p => p.1 = owner)).map (·.2)

/-- the earnings records after a withdrawal and the amount to pay (before any coin moves) -/
def withdrawRecords (s : State) (owner prov : Addr) : Except Res (State × Nat) :=
  if prov ≠ "" then
    if balOf s.earned prov = balOf s.ownerEarned owner then
      .ok ({ s with earned := Map.del s.earned prov, ownerEarned := Map.del s.ownerEarned owner }, balOf s.earned prov)
    else if balOf s.ownerEarned owner < balOf s.earned prov then .error (.panic "negative coin amount")
    else .ok ({ s with earned := Map.del s.earned prov,
                       ownerEarned := Map.set s.ownerEarned owner (balOf s.ownerEarned owner - balOf s.earned prov) },
              balOf s.earned prov)
  else
    .ok ({ s with earned := (providersOf s owner).foldl (fun m p => Map.del m p) s.earned,
                  ownerEarned := Map.del s.ownerEarned owner }, balOf s.ownerEarned owner)

def withdraw (s : State) (owner prov : Addr) : Out :=
  if prov ≠ "" ∧ Map.get s.owner prov ≠ some owner then fail s .notAuthorized
  else
    match withdrawRecords s owner prov with
    | .error r => (s, r, [])
    | .ok (s1, amt) =>
      if (Map.get s.withdraw owner).getD owner = s.cfg.escrow ∨ (Map.get s.withdraw owner).getD owner = s.cfg.deposit then
        fail s .unauthorized
      else match bankSend s1.bank s.cfg.escrow ((Map.get s.withdraw owner).getD owner) amt with
      | none => fail s .insufficientFunds
      | some bank' => ({ s1 with bank := bank' }, .ok,
          if amt = 0 then [] else [.transfer s.cfg.escrow ((Map.get s.withdraw owner).getD owner) amt])

end SM
