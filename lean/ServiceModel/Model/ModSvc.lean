import ServiceModel.Model.Step
/-!
# The module-service branch (`handler.go handleMsgCallService`, `keeper/module_service.go`) and the keeper-level
binding another module makes for its module service

These two operations are **outside `Op` and `step`**: the property theorems do not quantify over them (`WF`
excludes a `call` of the reserved service name). They are executable model functions, compared with the code by
the correspondence run and checked by the state monitors on the implementation's own states (C01's check, profile
`modsvc`). What the code does there, as read and as observed:

* the handler creates a one-shot context for the registered provider alone (timeout 1, running, queued for the
  current height) and calls `RequestModuleService` in the same transaction;
* `RequestModuleService` filters that provider like any other (binding available, QoS ≤ 1, price ≤ cap), rejects the
  call when it is not eligible (the repair of D13; before it, the consumer paid nothing and the provider was credited
  the price), charges the consumer, issues batch 1 with one request **without queueing an expiry**, asks the module
  for its answer and records it with `AddResponse` (earnings, or slash and refund for a malformed output);
* the context stays running and queued, so the end of the same block issues batch 2 to the same provider like for any
  one-shot context, and its expiry removes the context with batch 2 — the request and the response of batch 1 stay in
  the store for good (they are what the module-service caller reads back). This is why C10 and C16 are not claimed
  for this branch (DESIGN.md §10.10).
-/
namespace SM

/-- `Keeper.AddServiceBinding` called directly: `bind` without the handler's reservation check -/
def modBind (s : State) (svc : SvcName) (prov owner : Addr) (dep : Option Nat) (text : PricingText) (qos : Nat) : Out :=
  let r := bind { s with cfg := { s.cfg with modsvc := none } } svc prov owner dep text qos
  ({ r.1 with cfg := s.cfg }, r.2.1, r.2.2)

/-- `RequestModuleService` once the context `x` is stored under `id` in `s1` (`s` is the state before the message: any
    failure rolls the whole transaction back to it) -/
def requestModSvc (s s1 : State) (id : CtxId) (x : Ctx) (svc : SvcName) (prov cons : Addr) (code : Nat) (out : OutKind) : Out :=
  if (eligible s1 x).isEmpty then fail s .invalidModuleService
  else match bankSend s1.bank cons s1.cfg.escrow (sumPrices (eligible s1 x)) with
  | none => fail s .insufficientFunds
  | some bank' =>
    let price := priceOf (storedPricing s1 svc prov) s1.time ((Map.get s1.volume (cons, svc, prov)).getD 0)
    let s2 := setCtx (issueReqs { s1 with bank := bank' } id x [(prov, price)] 0) id
                { x with batch := x.batch + 1, bstate := .running, respN := 0, reqN := 1, bthr := x.thr }
    let r : ReqId := { ctx := id, batch := 1, height := s.height.toNat, index := 0 }
    match respond s2 r prov code out with
    | (s3, .ok, e3) =>
      (s3, .ok, (if sumPrices (eligible s1 x) = 0 then [] else [.transfer cons s.cfg.escrow (sumPrices (eligible s1 x))])
                ++ [.evReqs id 1] ++ e3)
    | (_, res, _) => (s, res, [])

/-- `handleMsgCallService` for the reserved service name; `prov` is the provider of the registration,
    `code`/`out` the answer of the module's `ReuquestService` -/
def callMod (s : State) (id : CtxId) (svc : SvcName) (prov cons : Addr) (cap : Option Nat) (inputOk : Bool)
    (code : Nat) (out : OutKind) : Out :=
  match createCtx s id "" svc [prov] cons cap 1 false false 0 0 inputOk true 0 with
  | (s1, .ok, _) =>
    match Map.get s1.ctxs id with
    | none => fail s .unknownRequestContext
    | some x => requestModSvc s s1 id x svc prov cons code out
  | (_, res, _) => (s, res, [])

end SM
