import ServiceModel.Model.EndBlock
/-!
# One step of the state machine: stateless validation, then the handler on a cached
context that is committed only on success (baseapp), or a keeper entry point, or the end of a block.
-/
namespace SM

/-- stateless validation (`ValidateBasic`) of the message carried by an op; non-message ops pass -/
def validateBasic : Op → Bool
  | .define n a ok => defineVB n a ok
  | .bind svc p o dep text qos => bindVB svc p o dep text qos
  | .update svc p o dep text _ => updateVB svc p o dep text
  | .setwd o a => setwdVB o a
  | .disable svc p o => bindingMsgVB svc p o
  | .enable svc p o dep => bindingMsgVB svc p o && depositVB dep
  | .refund svc p o => bindingMsgVB svc p o
  | .call _ svc provs cons cap timeout _ rep freq total _ => callVB svc provs cons cap timeout rep freq total
  | .respond _ p code out => respondVB p code out
  | .pause _ cons => ctxMsgVB cons
  | .start _ cons => ctxMsgVB cons
  | .kill _ cons => ctxMsgVB cons
  | .updatectx _ cons provs cap timeout freq total => updatectxVB cons provs cap timeout freq total
  | .withdraw o _ => withdrawVB o
  | _ => true

/-- the handler / keeper function of an op, before the cache discipline -/
def exec (s : State) : Op → Out
  | .fund a n => ({ s with bank := bankMint s.bank a n }, .ok, [])
  | .xfer a b n =>
    match bankSend s.bank a b n with
    | none => fail s .insufficientFunds
    | some bank' => ({ s with bank := bank' }, .ok, [])
  | .define n a _ => define s n a
  | .bind svc p o dep text qos =>
    match text with
    | some t => bind s svc p o dep t qos
    | none => (s, .invalid, [])
  | .update svc p o dep text qos => update s svc p o dep text qos
  | .setwd o a => setwd s o a
  | .disable svc p o => disable s svc p o
  | .enable svc p o dep => enable s svc p o dep
  | .refund svc p o => refund s svc p o
  | .call id svc provs cons cap timeout super rep freq total inputOk =>
    if s.cfg.modsvc = some svc then panicOut s "module-service call: outside the model"
    else createCtx s id "" svc provs cons cap timeout super rep freq total inputOk true 0
  | .modcreate id mod svc provs cons cap timeout super rep freq total inputOk running thr =>
    createCtx s id mod svc provs cons cap timeout super rep freq total inputOk running thr
  | .respond r p code out => respond s r p code out
  | .pause c cons => ctxMsg s c cons (fun s => pauseK s c cons)
  | .start c cons => ctxMsg s c cons (fun s => startK s c cons)
  | .kill c cons => ctxMsg s c cons (fun s => killK s c cons)
  | .updatectx c cons provs cap timeout freq total =>
    ctxMsg s c cons (fun s => updateK s c cons provs 0 cap timeout freq total)
  | .modpause c cons => pauseK s c cons
  | .modstart c cons => startK s c cons
  | .modkill c cons => killK s c cons
  | .modupdate c cons provs thr cap timeout freq total => updateK s c cons provs thr cap timeout freq total
  | .withdraw o p => withdraw s o p
  | .endblock dt =>
    let r := endBlock s dt
    match r.panic with
    | some m => (s, .panic m, r.effs)      -- a panic in the end blocker halts the chain; no state follows
    | none => (r.s, .ok, r.effs)

def Op.isEndblock : Op → Bool
  | .endblock _ => true
  | _ => false

/-- one step -/
def step (s : State) (op : Op) : Out :=
  if !validateBasic op then (s, .invalid, [])
  else
    let (s', res, effs) := exec s op
    if op.isEndblock then (s', res, effs)
    else match res with
      | .ok => (s', .ok, effs)
      | r => (s, r, [])

def genesis (cfg : Config) (params : Params) (height time : Int) : State :=
  { cfg := cfg, params := params, height := height, time := time,
    defs := [], bindings := [], ownerBind := [], owner := [], ownerProv := [], pricing := [],
    withdraw := [], ctxs := [], expQ := [], newQ := [], expH := [], newH := [], reqs := [],
    activeB := [], activeI := [], resps := [], volume := [], earned := [], ownerEarned := [],
    bank := { bal := [], supply := 0 }, usedIds := [] }

/-- run a list of ops, collecting results and effects -/
def run (s : State) : List Op → State × List (Res × List Effect)
  | [] => (s, [])
  | op :: ops =>
    let (s1, r, e) := step s op
    let (s2, rs) := run s1 ops
    (s2, (r, e) :: rs)

end SM
