import ServiceModel.Model.Step
import ServiceModel.Basic.Scan
/-!
# The query interface (keeper/grpc_query.go, keeper/querier.go)

One function serves both interfaces: the gRPC server and the legacy querier call the same
keeper methods; that each of them answers like this function is what the correspondence
run establishes (`query via=grpc|legacy` ops, harness/SPEC.md §4.1).

Every answer is computed the way the code computes it — a direct lookup, or a scan of an
index followed by lookups — not from the "intended" set of records (a scan is `entries`/`elems`: each stored key once, see Basic/Scan.lean); that the two coincide in
every reachable state is the content of `Properties/C17.lean`.
-/
namespace SM
open Map

inductive Query
  | definition (name : SvcName)
  | binding (svc : SvcName) (prov : Addr)
  | bindings (svc : SvcName) (owner : Addr)          -- owner "" = of all owners
  | withdraw (owner : Addr)
  | context (c : CtxId)
  | request (r : ReqId)
  | requests (svc : SvcName) (prov : Addr)
  | requestsByCtx (c : CtxId) (batch : Nat)
  | response (r : ReqId)
  | responses (c : CtxId) (batch : Nat)
  | fees (prov : Addr)
  | params
  | schema (name : String)                           -- the two system schemas, by name (case-insensitive)
deriving Repr, DecidableEq

/-- a request as the queries return it: the stored compact record completed from its context -/
structure ReqView where
  id    : ReqId
  svc   : SvcName
  prov  : Addr
  cons  : Addr
  fee   : Nat
  super : Bool
  reqH  : Int
  expH  : Int
deriving Repr, DecidableEq

/-- the two constants `types.PricingSchema` and `types.ResultSchema` -/
inductive SchemaKind | pricing | result
deriving Repr, DecidableEq

inductive Answer
  | defn (name : SvcName) (d : Definition)
  | bindings (l : List ((SvcName × Addr) × Binding))
  | withdraw (owner addr : Addr)
  | context (c : CtxId) (x : Option Ctx)                -- `none`: the zero value the code returns for an unknown id
  | requests (l : List (Option ReqView))                -- `none`: the zero request
  | response (r : ReqId) (x : Option Resp)
  | responses (l : List (ReqId × Resp))
  | fees (prov : Addr) (n : Nat)
  | params (p : Params)
  | schema (k : SchemaKind)
deriving Repr

inductive QErr | unknownDefinition | unknownBinding | invalidSchemaName
deriving Repr, DecidableEq

/-- keeper/invocation.go GetRequest: the compact record, then its context; either missing = not found -/
def reqView (s : State) (r : ReqId) : Option ReqView :=
  match get s.reqs r with
  | none => none
  | some q =>
    match get s.ctxs r.ctx with
    | none => none
    | some x => some { id := r, svc := x.svc, prov := q.prov, cons := x.cons, fee := q.fee, super := x.super,
                       reqH := q.reqH, expH := q.expH }

/-- keeper/binding.go GetOwnerServiceBindings: scan of the owner index, then a lookup per entry -/
def ownerBindings (s : State) (owner : Addr) (svc : SvcName) : List ((SvcName × Addr) × Binding) :=
  ((FSet.elems s.ownerBind).filter (fun e => e.1 = owner ∧ e.2.1 = svc)).filterMap (fun e =>
    (get s.bindings (e.2.1, e.2.2)).map (fun b => ((e.2.1, e.2.2), b)))

def query (s : State) : Query → Except QErr Answer
  | .definition name =>
    match get s.defs name with
    | none => .error .unknownDefinition
    | some d => .ok (.defn name d)
  | .binding svc prov =>
    match get s.bindings (svc, prov) with
    | none => .error .unknownBinding
    | some b => .ok (.bindings [((svc, prov), b)])
  | .bindings svc owner =>
    if owner = "" then .ok (.bindings ((entries s.bindings).filter (fun e => e.1.1 = svc)))
    else .ok (.bindings (ownerBindings s owner svc))
  | .withdraw owner => .ok (.withdraw owner ((get s.withdraw owner).getD owner))
  | .context c => .ok (.context c (get s.ctxs c))
  | .request r => .ok (.requests [reqView s r])
  | .requests svc prov =>
    .ok (.requests (((FSet.elems s.activeB).filter (fun e => e.1 = svc ∧ e.2.1 = prov)).map (fun e => reqView s e.2.2.2)))
  | .requestsByCtx c batch =>
    .ok (.requests (((entries s.reqs).filter (fun e => e.1.ctx = c ∧ e.1.batch = batch)).map (fun e => reqView s e.1)))
  | .response r => .ok (.response r (get s.resps r))
  | .responses c batch => .ok (.responses ((entries s.resps).filter (fun e => e.1.ctx = c ∧ e.1.batch = batch)))
  | .fees prov => .ok (.fees prov ((get s.earned prov).getD 0))
  | .params => .ok (.params s.params)
  | .schema name =>
    -- `strings.ToLower(name)`, then `pricing` / `result` / anything else is refused; no store access at all
    if name.toLower = "pricing" then .ok (.schema .pricing)
    else if name.toLower = "result" then .ok (.schema .result)
    else .error .invalidSchemaName

end SM
