import ServiceModel.Model.Query
import ServiceModel.Model.EndBlock
/-!
# Genesis: zero-height preparation, export, validation, import (genesis.go, types/genesis.go)

`prep` mirrors `PrepForZeroHeightGenesis`: `RefundServiceFees`, `RefundEarnedFees`,
`ResetRequestContextsStateAndBatch`; an error of the bank makes the Go code panic, and the
caller (an export command) then has no state to export: `panic` is set and the state unchanged.
The records the refunds were computed from (pending markers, earnings, queues) stay in the
store: they are not part of the exported genesis.
-/
namespace SM
open Map

structure GenesisState where
  params   : Params
  defs     : Map SvcName Definition
  bindings : Map (SvcName × Addr) Binding
  withdraw : Map Addr Addr
  ctxs     : Map CtxId Ctx
deriving Repr

/-! ### zero-height preparation -/
/-- one step of `RefundServiceFees`: the fee of a pending request goes from the escrow to its consumer
    (`GetRequest` rebuilds the request from its context; a marker without a request yields the zero request,
    i.e. an empty transfer) -/
def refundFee (s : State) (e : SvcName × Addr × Int × ReqId) : HRes :=
  match reqView s e.2.2.2 with
  | none => ⟨s, [], none⟩
  | some v =>
    match bankSend s.bank s.cfg.escrow v.cons v.fee with
    | none => ⟨s, [], some "failed to refund the service fees"⟩
    | some b => ⟨{ s with bank := b }, if v.fee = 0 then [] else [.transfer s.cfg.escrow v.cons v.fee], none⟩

/-- one step of `RefundEarnedFees`: a provider's earnings go from the escrow to the provider -/
def refundEarned (s : State) (e : Addr × Nat) : HRes :=
  match bankSend s.bank s.cfg.escrow e.1 e.2 with
  | none => ⟨s, [], some "failed to refund the earned fees"⟩
  | some b => ⟨{ s with bank := b }, if e.2 = 0 then [] else [.transfer s.cfg.escrow e.1 e.2], none⟩

/-- `ResetRequestContextsStateAndBatch` on one context -/
def resetCtx (x : Ctx) : Ctx := { x with state := .paused, bstate := .completed, reqN := 0, respN := 0 }

def resetCtxs (s : State) : State := { s with ctxs := s.ctxs.map (fun e => (e.1, resetCtx e.2)) }

def prep (s : State) : HRes :=
  let r1 := foldH refundFee s (FSet.elems s.activeB)
  match r1.panic with
  | some m => ⟨s, [], some m⟩
  | none =>
    let r2 := foldH refundEarned r1.s (entries r1.s.earned)
    match r2.panic with
    | some m => ⟨s, [], some m⟩
    | none => ⟨resetCtxs r2.s, r1.effs ++ r2.effs, none⟩

/-! ### export -/
def exportG (s : State) : GenesisState :=
  { params := s.params, defs := entries s.defs, bindings := entries s.bindings, withdraw := entries s.withdraw,
    ctxs := entries s.ctxs }

/-! ### validation (`ValidateGenesis`), on the fields the model carries -/
def paramsValid (p : Params) : Bool :=
  decide (0 < p.maxTimeout) && decide (0 < p.mult) && decide (p.tax < decUnit) && decide (p.slash ≤ decUnit)
  && decide (0 < p.complaint) && decide (0 < p.arbitration)

def defValid (name : SvcName) (d : Definition) : Bool := d.author ≠ "" && validName name

def bindingValid (k : SvcName × Addr) (b : Binding) : Bool :=
  k.2 ≠ "" && b.owner ≠ "" && validName k.1 && decide (0 < b.qos)

/-- `RequestContext.Validate` and the two state requirements of `ValidateGenesis` -/
def ctxValid (x : Ctx) : Bool :=
  ctxFieldsOK x && x.state = .paused && x.bstate = .completed

/-- a withdraw-address key is written as bech32 text and must parse back: 20 bytes (40 hex digits here) -/
def wdKeyValid (owner : Addr) : Bool := owner.length = 40

def validateG (g : GenesisState) : Bool :=
  paramsValid g.params && g.defs.all (fun e => defValid e.1 e.2) && g.bindings.all (fun e => bindingValid e.1 e.2)
  && g.withdraw.all (fun e => wdKeyValid e.1) && g.ctxs.all (fun e => ctxValid e.2)

/-! ### import (`InitGenesis`) into a fresh chain -/
/-- `SetServiceBindingForGenesis`: the binding, its three ownership indexes and its parsed price terms;
    `none` = the pricing text does not parse (the Go code panics) -/
def importBinding (s : State) (e : (SvcName × Addr) × Binding) : Option State :=
  match parsePricing e.2.text with
  | .ok p =>
    some { s with bindings := set s.bindings e.1 e.2,
                  ownerBind := FSet.ins s.ownerBind (e.2.owner, e.1.1, e.1.2),
                  owner := set s.owner e.1.2 e.2.owner,
                  ownerProv := FSet.ins s.ownerProv (e.2.owner, e.1.2),
                  pricing := set s.pricing e.1 p }
  | _ => none

def importBindings : State → List ((SvcName × Addr) × Binding) → Option State
  | s, [] => some s
  | s, e :: t => match importBinding s e with
    | none => none
    | some s1 => importBindings s1 t

/-- `none` = `InitGenesis` panics (invalid genesis, or a pricing that does not parse) -/
def importG (cfg : Config) (g : GenesisState) (height time : Int) : Option State :=
  if !validateG g then none
  else
    let s0 := genesis cfg g.params height time
    let s1 := { s0 with defs := g.defs.foldl (fun m e => set m e.1 e.2) [] }
    match importBindings s1 g.bindings with
    | none => none
    | some s2 =>
      some { s2 with withdraw := g.withdraw.foldl (fun m e => set m e.1 e.2) [],
                     ctxs := g.ctxs.foldl (fun m e => set m e.1 e.2) [],
                     usedIds := g.ctxs.map (·.1) }

end SM
