import ServiceModel.Model.Types
/-!
# Fixed-point arithmetic and pricing (mirrors `sdk.Dec`, `types/binding.go`, `GetPrice`,
`GetExchangedPrice`, `getMinDeposit`)
-/
namespace SM

/-- `chopPrecisionAndRound`: divide by 10^18, round half to even (non-negative values) -/
def chopRound (x : Nat) : Nat :=
  let q := x / decUnit
  let r := x % decUnit
  if 2 * r < decUnit then q
  else if 2 * r > decUnit then q + 1
  else if q % 2 = 0 then q else q + 1

/-- `Dec.Mul` on 18-digit fixed-point values -/
def decMul (a b : Nat) : Nat := chopRound (a * b)

/-- `NewDecFromInt` -/
def decOfNat (n : Nat) : Nat := n * decUnit

/-- `TruncateInt` -/
def decTrunc (d : Nat) : Nat := d / decUnit

/-- `GetDiscountByTime`: the first promotion whose window `[start, stop)` contains the time -/
def discT : List PromT → Int → Nat
  | [], _ => decUnit
  | p :: ps, t => if p.start ≤ t ∧ t < p.stop then p.disc else discT ps t

/-- `GetDiscountByVolume`, the loop as written -/
def discVLoop (all : List PromV) : List PromV → Nat → Nat → Nat
  | [], _, _ => decUnit
  | p :: ps, i, v =>
    if v < p.vol then
      (if i = 0 then decUnit else match all[i - 1]? with | some q => q.disc | none => decUnit)
    else if i = all.length - 1 then p.disc
    else discVLoop all ps (i + 1) v

def discV (ps : List PromV) (v : Nat) : Nat := discVLoop ps ps 0 v

/-- specification of the volume discount: discount of the last promotion whose threshold is
    not above the volume (for ascending thresholds this is what the loop computes) -/
def discVSpec : List PromV → Nat → Nat → Nat
  | [], _, acc => acc
  | p :: ps, v, acc => if v < p.vol then acc else discVSpec ps v p.disc

/-- the price as a decimal before flooring: `base × discT × discV`, rounded once per product -/
def priceDec (p : Pricing) (time : Int) (vol : Nat) : Nat :=
  decMul (decMul (decOfNat p.base) (discT p.promT time)) (discV p.promV vol)

/-- `GetPrice` (and `GetExchangedPrice` for the base denomination): floor at one unit, truncate -/
def priceOf (p : Pricing) (time : Int) (vol : Nat) : Nat :=
  let d := priceDec p time vol
  decTrunc (if d < decUnit then decUnit else d)

def intLimit : Nat := 2 ^ 255

/-- `getMinDeposit`: `none` = the checked multiplication overflows (panic, D9) -/
def minDeposit (params : Params) (p : Pricing) : Option Nat :=
  let m := p.base * params.mult
  if m ≥ intLimit then none
  else some (if m < params.minDep then params.minDep else m)

/-- `ValidatePricing` (keeper side): windows well-formed, ascending, non-overlapping; volumes non-decreasing -/
def validPromT : List PromT → Option Int → Bool
  | [], _ => true
  | p :: ps, prevEnd =>
    (p.stop > p.start) && (match prevEnd with | none => true | some e => !(p.start < e)) && validPromT ps (some p.stop)

def validPromV : List PromV → Option Nat → Bool
  | [], _ => true
  | p :: ps, prev =>
    (match prev with | none => true | some v => !(p.vol < v)) && validPromV ps (some p.vol)

def validPricing (p : Pricing) : Bool := validPromT p.promT none && validPromV p.promV none

/-! ### the price string -/

def isDigit (c : Char) : Bool := c.isDigit
def isLower (c : Char) : Bool := 'a' ≤ c ∧ c ≤ 'z'

def digitsToNat (cs : List Char) : Nat := cs.foldl (fun n c => n * 10 + (c.toNat - '0'.toNat)) 0

/-- split `"12.5stake"` into integer digits, fraction digits (without the dot), denomination -/
def splitPrice (s : String) : List Char × List Char × List Char :=
  let cs := s.toList
  let ip := cs.takeWhile isDigit
  let rest := cs.dropWhile isDigit
  match rest with
  | '.' :: r => (ip, r.takeWhile isDigit, r.dropWhile isDigit)
  | _ => (ip, [], rest)

/-- does the string have a `.` directly after the integer digits -/
def priceHasDot (s : String) : Bool :=
  match (s.toList.dropWhile isDigit) with
  | '.' :: _ => true
  | _ => false

/-- JSON-schema pattern `^\d+(\.\d+)?[a-z][a-z0-9]{2,7}$` -/
def pricePatternOk (s : String) : Bool :=
  let (ip, fp, den) := splitPrice s
  !ip.isEmpty && (!priceHasDot s || !fp.isEmpty) &&
  (match den with
   | c :: r => isLower c && r.all (fun x => isLower x || isDigit x) && 2 ≤ r.length && r.length ≤ 7
   | [] => false)

inductive ParseRes
  | ok (p : Pricing)
  | bad
  | overflow         -- `NewIntFromBigInt() out of bound` (D9)

/-- `ParsePricing` for text that already passed the schema: base = integer part in `stake`.
    A price without a decimal point goes through `sdk.ParseCoin` (amounts of more than 255
    bits are rejected); one with a decimal point goes through `sdk.ParseDecCoin`, which
    accepts any size, and `ToMinCoin`'s `TruncateInt` then panics beyond 255 bits (D9). -/
def parsePricing (t : PricingText) : ParseRes :=
  let (ip, fp, den) := splitPrice t.price
  let n := digitsToNat ip
  if String.ofList den ≠ "stake" then .bad
  else if priceHasDot t.price then
    if fp.length > 18 then .bad
    else if n < intLimit then .ok { base := n, promT := t.promT, promV := t.promV }
    else .overflow
  else if n < intLimit then .ok { base := n, promT := t.promT, promV := t.promV }
  else .bad

/-- schema-level validity of a pricing text (`ValidateBindingPricing`) -/
def pricingTextOk (t : PricingText) : Bool :=
  pricePatternOk t.price &&
  t.promT.length ≤ 5 && t.promV.length ≤ 5 &&
  t.promT.all (fun p => 0 < p.disc && p.disc < decUnit) &&
  t.promV.all (fun p => 0 < p.disc && p.disc < decUnit && 1 ≤ p.vol) &&
  decide t.promT.Nodup && decide t.promV.Nodup

end SM
