import ServiceModel.Model.Pricing
import ServiceModel.Model.Bank
/-!
# Definitions and bindings (mirrors `keeper/definition.go`, `keeper/binding.go`,
`handler.go` for the binding messages)

Every function returns the new state, the result, and the ordered effects. A result other
than `ok` leaves the state as it was (baseapp drops the cache); `Step.lean` enforces
that uniformly, so the functions here may return any state together with an error.
-/
namespace SM

abbrev Out := State × Res × List Effect

def fail (s : State) (e : Err) : Out := (s, .err e, [])
def panicOut (s : State) (site : String) : Out := (s, .panic site, [])

/-- service name rule: `^[a-zA-Z][a-zA-Z0-9_-]*$`, at most 70 bytes -/
def validName (n : String) : Bool :=
  match n.toList with
  | [] => false
  | c :: r => c.isAlpha && r.all (fun x => x.isAlphanum || x == '_' || x == '-') && n.utf8ByteSize ≤ 70

/-! ### define -/
def defineVB (name : SvcName) (author : Addr) (schemaOk : Bool) : Bool :=
  author ≠ "" && validName name && schemaOk

def define (s : State) (name : SvcName) (author : Addr) : Out :=
  match Map.get s.defs name with
  | some _ => fail s .definitionExists
  | none => ({ s with defs := Map.set s.defs name { author := author } }, .ok, [])

/-! ### bind -/
def depositVB (dep : Option Nat) : Bool :=
  match dep with
  | none => true
  | some n => 0 < n            -- `Coins.IsValid`: amounts strictly positive

def bindVB (svc : SvcName) (prov owner : Addr) (dep : Option Nat) (text : Option PricingText) (qos : Nat) : Bool :=
  prov ≠ "" && owner ≠ "" && validName svc && depositVB dep && 0 < qos &&
  (match text with | none => false | some t => pricingTextOk t)

def bind (s : State) (svc : SvcName) (prov owner : Addr) (dep : Option Nat) (text : PricingText) (qos : Nat) : Out :=
  if s.cfg.modsvc = some svc then fail s .bindModuleService
  else if (Map.get s.defs svc).isNone then fail s .unknownDefinition
  else if (Map.get s.bindings (svc, prov)).isSome then fail s .bindingExists
  else
    let cur := Map.get s.owner prov
    if cur.isSome ∧ cur ≠ some owner then fail s .notAuthorized
    else match dep with
    | none => fail s .invalidDeposit          -- validateDeposit: exactly one coin required
    | some d =>
      if (qos : Int) > s.params.maxTimeout then fail s .invalidQoS
      else match parsePricing text with
      | .bad => fail s .invalidPricing
      | .overflow => panicOut s "NewIntFromBigInt() out of bound"
      | .ok p =>
        if !validPricing p then fail s .invalidPricing
        else match minDeposit s.params p with
        | none => panicOut s "Int overflow"
        | some md =>
          if d < md then fail s .invalidDeposit
          else match bankSend s.bank owner s.cfg.deposit d with
          | none => fail s .insufficientFunds
          | some bank' =>
            let b : Binding := { owner := owner, deposit := d, avail := true, disabledAt := zeroTime, qos := qos, text := text }
            let s1 := { s with
              bank := bank'
              bindings := Map.set s.bindings (svc, prov) b
              ownerBind := FSet.ins s.ownerBind (owner, svc, prov)
              pricing := Map.set s.pricing (svc, prov) p }
            let s2 := if cur.isNone then
                { s1 with owner := Map.set s1.owner prov owner, ownerProv := FSet.ins s1.ownerProv (owner, prov) }
              else s1
            (s2, .ok, [.transfer owner s.cfg.deposit d])

/-! ### update -/
def updateVB (svc : SvcName) (prov owner : Addr) (dep : Option Nat) (text : Option PricingText) : Bool :=
  prov ≠ "" && owner ≠ "" && validName svc && depositVB dep &&
  (match text with | none => true | some t => pricingTextOk t)

/-- the price terms in force after an update: the stored ones, or the parse of the new text -/
def newTerms (s : State) (svc : SvcName) (prov : Addr) (text : Option PricingText) : Except Res Pricing :=
  match text with
  | none => .ok (match Map.get s.pricing (svc, prov) with
      | some p => p
      | none => { base := 0, promT := [], promV := [] })
  | some t => match parsePricing t with
    | .bad => .error (.err .invalidPricing)
    | .overflow => .error (.panic "NewIntFromBigInt() out of bound")
    | .ok p => if !validPricing p then .error (.err .invalidPricing) else .ok p

/-- the minimum-deposit check of an update (only for an available binding that was changed); `none` = passes -/
def minCheck (params : Params) (b : Binding) (updated : Bool) (p : Pricing) : Option Res :=
  if b.avail ∧ updated then
    match minDeposit params p with
    | none => some (.panic "Int overflow")
    | some md => if b.deposit < md then some (.err .invalidDeposit) else none
  else none

def update (s : State) (svc : SvcName) (prov owner : Addr) (dep : Option Nat) (text : Option PricingText) (qos : Nat) : Out :=
  match Map.get s.bindings (svc, prov) with
  | none => fail s .unknownBinding
  | some b =>
    if owner ≠ b.owner then fail s .notAuthorized
    else if qos ≠ 0 ∧ (qos : Int) > s.params.maxTimeout then fail s .invalidQoS
    else if dep.isSome ∧ b.deposit + dep.getD 0 ≥ intLimit then panicOut s "Int overflow"
    else
      let d := dep.getD 0
      let b3 : Binding := { b with qos := if qos ≠ 0 then qos else b.qos, deposit := b.deposit + d,
                                   text := match text with | some t => t | none => b.text }
      let updated : Bool := decide (qos ≠ 0) || dep.isSome || text.isSome
      match newTerms s svc prov text with
      | .error r => (s, r, [])
      | .ok p =>
        match minCheck s.params b3 updated p with
        | some r => (s, r, [])
        | none =>
          match (if dep.isSome then bankSend s.bank owner s.cfg.deposit d else some s.bank) with
          | none => fail s .insufficientFunds
          | some bank' =>
            if updated then
              ({ s with bank := bank', bindings := Map.set s.bindings (svc, prov) b3,
                        pricing := if text.isSome then Map.set s.pricing (svc, prov) p else s.pricing },
               .ok, if d = 0 then [] else [.transfer owner s.cfg.deposit d])
            else ({ s with bank := bank' }, .ok, [])

/-! ### set withdraw address -/
def setwdVB (owner addr : Addr) : Bool := owner ≠ "" && addr ≠ ""

def setwd (s : State) (owner addr : Addr) : Out :=
  ({ s with withdraw := Map.set s.withdraw owner addr }, .ok, [])

/-! ### disable / enable / refund -/
def bindingMsgVB (svc : SvcName) (prov owner : Addr) : Bool := prov ≠ "" && owner ≠ "" && validName svc

def disable (s : State) (svc : SvcName) (prov owner : Addr) : Out :=
  match Map.get s.bindings (svc, prov) with
  | none => fail s .unknownBinding
  | some b =>
    if owner ≠ b.owner then fail s .notAuthorized
    else if !b.avail then fail s .bindingUnavailable
    else ({ s with bindings := Map.set s.bindings (svc, prov) { b with avail := false, disabledAt := s.time } }, .ok, [])

def enable (s : State) (svc : SvcName) (prov owner : Addr) (dep : Option Nat) : Out :=
  match Map.get s.bindings (svc, prov) with
  | none => fail s .unknownBinding
  | some b =>
    if owner ≠ b.owner then fail s .notAuthorized
    else if b.avail then fail s .bindingAvailable
    else
      let d := dep.getD 0
      if dep.isSome ∧ b.deposit + d ≥ intLimit then panicOut s "Int overflow"
      else
        let stored := match Map.get s.pricing (svc, prov) with
          | some p => p
          | none => { base := 0, promT := [], promV := [] }
        match minDeposit s.params stored with
        | none => panicOut s "Int overflow"
        | some md =>
          if b.deposit + d < md then fail s .invalidDeposit
          else match (if dep.isSome then bankSend s.bank owner s.cfg.deposit d else some s.bank) with
          | none => fail s .insufficientFunds
          | some bank' =>
            let b' := { b with deposit := b.deposit + d, avail := true, disabledAt := zeroTime }
            ({ s with bank := bank', bindings := Map.set s.bindings (svc, prov) b' }, .ok,
              if d = 0 then [] else [.transfer owner s.cfg.deposit d])

def refund (s : State) (svc : SvcName) (prov owner : Addr) : Out :=
  match Map.get s.bindings (svc, prov) with
  | none => fail s .unknownBinding
  | some b =>
    if owner ≠ b.owner then fail s .notAuthorized
    else if b.avail then fail s .bindingAvailable
    else if b.deposit = 0 then fail s .invalidDeposit
    else if s.time < b.disabledAt + s.params.arbitration + s.params.complaint then fail s .incorrectRefundTime
    else match bankSend s.bank s.cfg.deposit b.owner b.deposit with
    | none => fail s .insufficientFunds
    | some bank' =>
      ({ s with bank := bank', bindings := Map.set s.bindings (svc, prov) { b with deposit := 0 } }, .ok,
        [.transfer s.cfg.deposit b.owner b.deposit])

end SM
