import ServiceModel.Basic.Map
/-!
# State, operations, results and effects of the service state machine (core Lean only)

Addresses are lower-case hex strings (so variable-length provider addresses are just
strings of other lengths); context and request identifiers are carried as the tuples
they are built from (`Keys/Ids.lean` proves the byte encodings injective and
order-preserving for these tuples).
-/
namespace SM

abbrev Addr := String
abbrev SvcName := String
abbrev ModName := String

/-- 10^18, the unit of `sdk.Dec` -/
def decUnit : Nat := 1000000000000000000

/-- Go's zero `time.Time{}` in ns since the Unix epoch -/
def zeroTime : Int := -62135596800 * 1000000000

structure CtxId where
  hash : Nat
  idx  : Nat
deriving DecidableEq, Repr, Inhabited

structure ReqId where
  ctx    : CtxId
  batch  : Nat
  height : Nat
  index  : Nat
deriving DecidableEq, Repr, Inhabited

def CtxId.le (a b : CtxId) : Bool := a.hash < b.hash || (a.hash == b.hash && a.idx ≤ b.idx)
def ReqId.le (a b : ReqId) : Bool :=
  if a.ctx ≠ b.ctx then a.ctx.le b.ctx
  else if a.batch ≠ b.batch then a.batch < b.batch
  else if a.height ≠ b.height then a.height < b.height
  else a.index ≤ b.index

inductive CtxState | running | paused | completed
deriving DecidableEq, Repr, Inhabited
inductive BatchState | running | completed
deriving DecidableEq, Repr, Inhabited

structure PromT where
  start : Int
  stop  : Int
  disc  : Nat
deriving DecidableEq, Repr

structure PromV where
  vol  : Nat
  disc : Nat
deriving DecidableEq, Repr

/-- the published pricing text, kept structured: the literal price string and the promotions -/
structure PricingText where
  price : String
  promT : List PromT
  promV : List PromV
deriving DecidableEq, Repr

/-- parsed price terms (store prefix 0x06) -/
structure Pricing where
  base  : Nat
  promT : List PromT
  promV : List PromV
deriving DecidableEq, Repr

structure Params where
  maxTimeout  : Int
  mult        : Nat
  minDep      : Nat      -- 0 = empty coin list
  tax         : Nat      -- dec18
  slash       : Nat      -- dec18
  complaint   : Int      -- ns
  arbitration : Int      -- ns
deriving DecidableEq, Repr

structure Definition where
  author : Addr
deriving DecidableEq, Repr

structure Binding where
  owner      : Addr
  deposit    : Nat
  avail      : Bool
  disabledAt : Int
  qos        : Nat
  text       : PricingText
deriving DecidableEq, Repr

structure Ctx where
  svc    : SvcName
  provs  : List Addr
  cons   : Addr
  cap    : Nat
  timeout : Int
  super  : Bool
  rep    : Bool
  freq   : Nat
  total  : Int
  batch  : Nat
  reqN   : Nat
  respN  : Nat
  bthr   : Nat
  bstate : BatchState
  state  : CtxState
  thr    : Nat
  mod    : ModName      -- "" = created by a message
deriving DecidableEq, Repr

structure Req where
  prov : Addr
  fee  : Nat            -- 0 = no fee recorded (super mode)
  reqH : Int
  expH : Int
deriving DecidableEq, Repr

inductive OutKind | valid | malformed | absent
deriving DecidableEq, Repr

structure Resp where
  prov : Addr
  cons : Addr
  code : Nat
  out  : OutKind
deriving DecidableEq, Repr

structure Bank where
  bal    : Map Addr Nat
  supply : Int            -- relative to the baseline
deriving Repr

structure Config where
  escrow    : Addr
  deposit   : Addr
  collector : Addr
  modules   : List ModName
  modsvc    : Option SvcName
deriving Repr

structure State where
  cfg      : Config
  params   : Params
  height   : Int
  time     : Int
  defs     : Map SvcName Definition
  bindings : Map (SvcName × Addr) Binding            -- 0x02
  ownerBind : FSet (Addr × SvcName × Addr)           -- 0x03
  owner    : Map Addr Addr                           -- 0x04 provider ↦ owner
  ownerProv : FSet (Addr × Addr)                     -- 0x05
  pricing  : Map (SvcName × Addr) Pricing            -- 0x06
  withdraw : Map Addr Addr                           -- 0x07
  ctxs     : Map CtxId Ctx                           -- 0x08
  expQ     : FSet (Int × CtxId)                      -- 0x09
  newQ     : FSet (Int × CtxId)                      -- 0x10
  expH     : Map CtxId Int                           -- 0x11
  newH     : Map CtxId Int                           -- 0x12
  reqs     : Map ReqId Req                           -- 0x13
  activeB  : FSet (SvcName × Addr × Int × ReqId)     -- 0x14
  activeI  : FSet ReqId                              -- 0x15
  resps    : Map ReqId Resp                          -- 0x16
  volume   : Map (Addr × SvcName × Addr) Nat         -- 0x17
  earned   : Map Addr Nat                            -- 0x18
  ownerEarned : Map Addr Nat                         -- 0x19
  bank     : Bank
  usedIds  : List CtxId          -- ghost: every context id ever created (E7: never reused)
deriving Repr

inductive Err
  | definitionExists | unknownDefinition | bindingExists | unknownBinding | notAuthorized
  | invalidDeposit | invalidPricing | invalidQoS | bindingUnavailable | bindingAvailable
  | incorrectRefundTime | bindModuleService | invalidRequestInput | invalidTimeout
  | invalidRepeatedFreq | invalidRepeatedTotal | invalidResponseThreshold | invalidProviders
  | callbackNotRegistered | unknownRequestContext | requestContextNonRepeated
  | requestContextNotRunning | requestContextNotPaused | requestContextCompleted
  | unknownRequest | invalidResponse | insufficientFunds | invalidWithdrawAddress
  | invalidServiceName | invalidRequest | invalidCoins | invalidAddress | unauthorized
  | invalidModuleService
deriving DecidableEq, Repr

inductive Res
  | ok
  | err (e : Err)
  | invalid
  | panic (site : String)
deriving DecidableEq, Repr

inductive Effect
  | transfer (src dst : Addr) (amt : Nat)        -- coins moved
  | xferFail (src dst : Addr) (amt : Nat)        -- the bank emitted its event, then refused (end of block only)
  | slash (r : ReqId) (prov : Addr) (amt : Nat)
  | ev (kind : String) (c : CtxId)
  | evReqs (c : CtxId) (n : Nat)
  | respcb (c : CtxId) (outs : List OutKind) (failed : Bool)
  | statecb (c : CtxId)
deriving DecidableEq, Repr

/-- operations: the 14 messages, keeper entry points used by other modules, environment -/
inductive Op
  | fund (acct : Addr) (amt : Nat)
  | xfer (src dst : Addr) (amt : Nat)
  | define (name : SvcName) (author : Addr) (schemaOk : Bool)
  | bind (svc : SvcName) (prov owner : Addr) (dep : Option Nat) (text : Option PricingText) (qos : Nat)
  | update (svc : SvcName) (prov owner : Addr) (dep : Option Nat) (text : Option PricingText) (qos : Nat)
  | setwd (owner addr : Addr)
  | disable (svc : SvcName) (prov owner : Addr)
  | enable (svc : SvcName) (prov owner : Addr) (dep : Option Nat)
  | refund (svc : SvcName) (prov owner : Addr)
  | call (id : CtxId) (svc : SvcName) (provs : List Addr) (cons : Addr) (cap : Option Nat)
      (timeout : Int) (super rep : Bool) (freq : Nat) (total : Int) (inputOk : Bool)
  | modcreate (id : CtxId) (mod : ModName) (svc : SvcName) (provs : List Addr) (cons : Addr)
      (cap : Option Nat) (timeout : Int) (super rep : Bool) (freq : Nat) (total : Int)
      (inputOk : Bool) (running : Bool) (thr : Nat)
  | respond (r : ReqId) (prov : Addr) (code : Nat) (out : OutKind)
  | pause (c : CtxId) (cons : Addr)
  | start (c : CtxId) (cons : Addr)
  | kill (c : CtxId) (cons : Addr)
  | updatectx (c : CtxId) (cons : Addr) (provs : List Addr) (cap : Option Nat) (timeout : Int)
      (freq : Nat) (total : Int)
  | modpause (c : CtxId) (cons : Addr)
  | modstart (c : CtxId) (cons : Addr)
  | modkill (c : CtxId) (cons : Addr)
  | modupdate (c : CtxId) (cons : Addr) (provs : List Addr) (thr : Nat) (cap : Option Nat)
      (timeout : Int) (freq : Nat) (total : Int)
  | withdraw (owner : Addr) (prov : Addr)      -- prov = "" : all providers of the owner
  | endblock (dt : Int)
deriving Repr

end SM
