import ServiceModel.Model.Step
/-!
# Reachability, environment assumptions, and the invariants the property theorems rest on
-/
namespace SM

/-- the two custody accounts of the module -/
def State.custody (s : State) (a : Addr) : Prop := a = s.cfg.escrow ∨ a = s.cfg.deposit
/-- any of the three module accounts the model knows -/
def State.modAcct (s : State) (a : Addr) : Prop := a = s.cfg.escrow ∨ a = s.cfg.deposit ∨ a = s.cfg.collector

/-- configuration assumptions (E5): distinct module accounts, legal parameters -/
structure CfgOK (cfg : Config) (p : Params) : Prop where
  ed : cfg.escrow ≠ cfg.deposit
  ec : cfg.escrow ≠ cfg.collector
  dc : cfg.deposit ≠ cfg.collector
  mult_pos : 1 ≤ p.mult
  maxT_pos : 1 ≤ p.maxTimeout
  tax_lt : p.tax < decUnit
  slash_le : p.slash ≤ decUnit
  complaint_pos : 0 < p.complaint
  arbitration_pos : 0 < p.arbitration

/-- Environment assumptions on one operation in a state (E1/E2/E7 of DESIGN.md):
    signers are ordinary accounts (module accounts have no keys), environment transfers do
    not touch custody accounts, consumers named by other modules are not custody accounts,
    and a context id (tx hash, msg index) is never reused. -/
def WF (s : State) : Op → Prop
  | .fund a _ => ¬ s.custody a
  | .xfer a b _ => ¬ s.modAcct a ∧ ¬ s.custody b
  | .define _ a _ => ¬ s.modAcct a
  | .bind _ _ o _ _ _ => ¬ s.modAcct o
  | .update _ _ o _ _ _ => ¬ s.modAcct o
  | .setwd o _ => ¬ s.modAcct o
  | .disable _ _ o => ¬ s.modAcct o
  | .enable _ _ o _ => ¬ s.modAcct o
  | .refund _ _ o => ¬ s.modAcct o
  | .call id svc _ cons _ _ _ _ _ _ _ => ¬ s.modAcct cons ∧ id ∉ s.usedIds ∧ s.cfg.modsvc ≠ some svc
  | .modcreate id _ _ _ cons _ _ _ _ _ _ _ _ _ => ¬ s.modAcct cons ∧ id ∉ s.usedIds
  | .respond _ p _ _ => ¬ s.modAcct p
  | .pause _ cons => ¬ s.modAcct cons
  | .start _ cons => ¬ s.modAcct cons
  | .kill _ cons => ¬ s.modAcct cons
  | .updatectx _ cons _ _ _ _ _ => ¬ s.modAcct cons
  | .modpause _ _ => True
  | .modstart _ _ => True
  | .modkill _ _ => True
  | .modupdate _ _ _ _ _ _ _ _ => True
  | .withdraw o _ => ¬ s.modAcct o
  | .endblock dt => 0 < dt

/-- states reachable from genesis by well-formed operations -/
inductive Reachable (cfg : Config) (p : Params) (h0 t0 : Int) : State → Prop
  | init : Reachable cfg p h0 t0 (genesis cfg p h0 t0)
  | step {s : State} (op : Op) : Reachable cfg p h0 t0 s → WF s op → Reachable cfg p h0 t0 (step s op).1

/-! ### sums -/
def depositSum (s : State) : Nat := Map.total (fun b : Binding => b.deposit) s.bindings

def feeOf (s : State) (r : ReqId) : Nat :=
  match Map.get s.reqs r with
  | some q => q.fee
  | none => 0

def activeFees (s : State) : Nat := (s.activeI.map (feeOf s)).sum

def earnedSum (s : State) : Nat := Map.total (fun n : Nat => n) s.earned

/-! ### invariants -/

/-- static facts and address hygiene -/
structure InvBasic (s : State) : Prop where
  ed : s.cfg.escrow ≠ s.cfg.deposit
  ec : s.cfg.escrow ≠ s.cfg.collector
  dc : s.cfg.deposit ≠ s.cfg.collector
  mult_pos : 1 ≤ s.params.mult
  maxT_pos : 1 ≤ s.params.maxTimeout
  tax_lt : s.params.tax < decUnit
  slash_le : s.params.slash ≤ decUnit
  ctxCons : ∀ c x, Map.get s.ctxs c = some x → ¬ s.modAcct x.cons
  bindOwner : ∀ k b, Map.get s.bindings k = some b → ¬ s.modAcct b.owner

/-- C03: the deposit account holds exactly the recorded deposits -/
def InvDeposit (s : State) : Prop := s.bal s.cfg.deposit = depositSum s

end SM
