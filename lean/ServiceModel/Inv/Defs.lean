import ServiceModel.Model.Step
/-!
# Reachability, environment assumptions, and the invariants the property theorems rest on
-/
namespace SM

/-- the two custody accounts of the module -/
def State.custody (s : State) (a : Addr) : Prop := a = s.cfg.escrow ∨ a = s.cfg.deposit
/-- any of the three module accounts the model knows -/
def State.modAcct (s : State) (a : Addr) : Prop := a = s.cfg.escrow ∨ a = s.cfg.deposit ∨ a = s.cfg.collector

/-- configuration assumptions (E5): distinct module accounts, legal parameters -/
structure CfgOK (cfg : Config) (p : Params) : Prop where
  ed : cfg.escrow ≠ cfg.deposit
  ec : cfg.escrow ≠ cfg.collector
  dc : cfg.deposit ≠ cfg.collector
  mult_pos : 1 ≤ p.mult
  maxT_pos : 1 ≤ p.maxTimeout
  tax_lt : p.tax < decUnit
  slash_le : p.slash ≤ decUnit
  complaint_pos : 0 < p.complaint
  arbitration_pos : 0 < p.arbitration

/-- Environment assumptions on one operation in a state (E1/E2/E7 of DESIGN.md):
    signers are ordinary accounts (module accounts have no keys), environment transfers do
    not touch custody accounts, consumers named by other modules are not custody accounts,
    and a context id (tx hash, msg index) is never reused. -/
def WF (s : State) : Op → Prop
  | .fund a _ => ¬ s.custody a
  | .xfer a b _ => ¬ s.modAcct a ∧ ¬ s.custody b
  | .define _ a _ => ¬ s.modAcct a
  | .bind _ _ o _ _ _ => ¬ s.modAcct o
  | .update _ _ o _ _ _ => ¬ s.modAcct o
  | .setwd o _ => ¬ s.modAcct o
  | .disable _ _ o => ¬ s.modAcct o
  | .enable _ _ o _ => ¬ s.modAcct o
  | .refund _ _ o => ¬ s.modAcct o
  | .call id svc _ cons _ _ _ _ _ _ _ => ¬ s.modAcct cons ∧ id ∉ s.usedIds ∧ s.cfg.modsvc ≠ some svc
  | .modcreate id _ _ _ cons _ _ _ _ _ _ _ _ _ => ¬ s.modAcct cons ∧ id ∉ s.usedIds
  | .respond _ p _ _ => ¬ s.modAcct p
  | .pause _ cons => ¬ s.modAcct cons
  | .start _ cons => ¬ s.modAcct cons
  | .kill _ cons => ¬ s.modAcct cons
  | .updatectx _ cons _ _ _ _ _ => ¬ s.modAcct cons
  | .modpause _ _ => True
  | .modstart _ _ => True
  | .modkill _ _ => True
  | .modupdate _ _ _ _ _ _ _ _ => True
  | .withdraw o _ => ¬ s.modAcct o
  | .endblock dt => 0 < dt

/-- states reachable from genesis by well-formed operations -/
inductive Reachable (cfg : Config) (p : Params) (h0 t0 : Int) : State → Prop
  | init : Reachable cfg p h0 t0 (genesis cfg p h0 t0)
  | step {s : State} (op : Op) : Reachable cfg p h0 t0 s → WF s op → Reachable cfg p h0 t0 (step s op).1

/-! ### sums -/
def depositSum (s : State) : Nat := Map.total (fun b : Binding => b.deposit) s.bindings

def feeOf (s : State) (r : ReqId) : Nat :=
  match Map.get s.reqs r with
  | some q => q.fee
  | none => 0

def activeFees (s : State) : Nat := (s.activeI.map (feeOf s)).sum

def earnedSum (s : State) : Nat := Map.total (fun n : Nat => n) s.earned

/-! ### invariants -/

/-- static facts and address hygiene -/
structure InvBasic (s : State) : Prop where
  ed : s.cfg.escrow ≠ s.cfg.deposit
  ec : s.cfg.escrow ≠ s.cfg.collector
  dc : s.cfg.deposit ≠ s.cfg.collector
  mult_pos : 1 ≤ s.params.mult
  maxT_pos : 1 ≤ s.params.maxTimeout
  tax_lt : s.params.tax < decUnit
  slash_le : s.params.slash ≤ decUnit
  ctxCons : ∀ c x, Map.get s.ctxs c = some x → ¬ s.modAcct x.cons
  bindOwner : ∀ k b, Map.get s.bindings k = some b → ¬ s.modAcct b.owner

/-- C03: the deposit account holds exactly the recorded deposits -/
def InvDeposit (s : State) : Prop := s.bal s.cfg.deposit = depositSum s

end SM

namespace SM

/-- contexts stored are well-formed: positive timeout, and a repeated context's frequency is
    not below its timeout (so a next batch never starts before the previous one expired) -/
def InvCtxWF (s : State) : Prop :=
  ∀ c x, Map.get s.ctxs c = some x → 1 ≤ x.timeout ∧ (x.rep = true → x.timeout ≤ (x.freq : Int))

/-- C11 (first sentence), C10 (single flight): the two queues, their per-context pointers,
    and the contexts -/
structure InvQueues (s : State) : Prop where
  newMirror : ∀ h c, (h, c) ∈ s.newQ ↔ Map.get s.newH c = some h
  expMirror : ∀ h c, (h, c) ∈ s.expQ ↔ Map.get s.expH c = some h
  single    : ∀ c, Map.get s.newH c = none ∨ Map.get s.expH c = none
  newFuture : ∀ c h, Map.get s.newH c = some h → s.height ≤ h ∧ (Map.get s.ctxs c).isSome
  expFuture : ∀ c h, Map.get s.expH c = some h → s.height ≤ h ∧ (Map.get s.ctxs c).isSome
  runningQ  : ∀ c x, Map.get s.ctxs c = some x → x.state = .running →
                (Map.get s.newH c).isSome ∨ (Map.get s.expH c).isSome
  used      : ∀ c, (Map.get s.ctxs c).isSome → c ∈ s.usedIds

/-- C11 (second sentence), C16: request records, responses and the two pending-request
    indexes belong to the batch in flight of an existing context -/
structure InvReqs (s : State) : Prop where
  reqCtx : ∀ r q, Map.get s.reqs r = some q →
      ∃ x, Map.get s.ctxs r.ctx = some x ∧ r.batch = x.batch ∧ Map.get s.expH r.ctx = some q.expH
  activeReq : ∀ r, r ∈ s.activeI → (Map.get s.reqs r).isSome
  activeMirror : ∀ svc p e r, (svc, p, e, r) ∈ s.activeB ↔
      (r ∈ s.activeI ∧ ∃ q x, Map.get s.reqs r = some q ∧ Map.get s.ctxs r.ctx = some x ∧
        svc = x.svc ∧ p = q.prov ∧ e = q.expH)
  respReq : ∀ r, (Map.get s.resps r).isSome → (Map.get s.reqs r).isSome ∧ r ∉ s.activeI
  activeNodup : s.activeI.Nodup
  reqBound : ∀ r q, Map.get s.reqs r = some q → (∃ x, Map.get s.ctxs r.ctx = some x ∧
      (Map.get s.bindings (x.svc, q.prov)).isSome)

/-- C01: the escrow account holds exactly the pending request fees plus the unwithdrawn earnings -/
def InvEscrow (s : State) : Prop := s.bal s.cfg.escrow = activeFees s + earnedSum s

/-- keys of the summed maps are duplicate-free -/
structure InvKeys (s : State) : Prop where
  earned : Map.NodupKeys s.earned
  ownerEarned : Map.NodupKeys s.ownerEarned
  bindings : Map.NodupKeys s.bindings

/-- C15: every binding's owner is the provider's owner; indexes are projections of the bindings -/
structure InvIndexes (s : State) : Prop where
  ownerOf : ∀ svc p b, Map.get s.bindings (svc, p) = some b → Map.get s.owner p = some b.owner
  ownerProv : ∀ o p, (o, p) ∈ s.ownerProv ↔ Map.get s.owner p = some o
  ownerBind : ∀ o svc p, (o, svc, p) ∈ s.ownerBind ↔ ∃ b, Map.get s.bindings (svc, p) = some b ∧ b.owner = o
  pricing : ∀ k b, Map.get s.bindings k = some b →
      ∃ p, Map.get s.pricing k = some p ∧ parsePricing b.text = .ok p ∧ validPricing p = true
  pricingOnly : ∀ k, (Map.get s.pricing k).isSome → (Map.get s.bindings k).isSome
  defined : ∀ svc p, (Map.get s.bindings (svc, p)).isSome → (Map.get s.defs svc).isSome
  ownerHas : ∀ p o, Map.get s.owner p = some o → ∃ svc, (Map.get s.bindings (svc, p)).isSome

/-- C14: an available binding holds the minimum deposit for its price -/
def InvMinDep (s : State) : Prop :=
  ∀ k b, Map.get s.bindings k = some b → b.avail = true →
    ∃ md, minDeposit s.params (storedPricing s k.1 k.2) = some md ∧ md ≤ b.deposit

/-- C13: an owner's recorded earnings are the sum of the earnings of the providers it owns -/
def ownedEarned (s : State) (o : Addr) : Nat :=
  Map.total (fun n : Nat => n) (s.earned.filter (fun p => Map.get s.owner p.1 = some o))

def InvOwnerEarned (s : State) : Prop :=
  (∀ o, balOf s.ownerEarned o = ownedEarned s o) ∧
  (∀ p, (Map.get s.earned p).isSome → (Map.get s.owner p).isSome)

end SM
