import ServiceModel.Model.Step
/-!
# Reachability, environment assumptions, and the invariants the property theorems rest on
-/
namespace SM

/-- the two custody accounts of the module -/
def State.custody (s : State) (a : Addr) : Prop := a = s.cfg.escrow ∨ a = s.cfg.deposit
/-- any of the three module accounts the model knows -/
def State.modAcct (s : State) (a : Addr) : Prop := a = s.cfg.escrow ∨ a = s.cfg.deposit ∨ a = s.cfg.collector

/-- configuration assumptions (E5): distinct module accounts, legal parameters -/
structure CfgOK (cfg : Config) (p : Params) : Prop where
  ed : cfg.escrow ≠ cfg.deposit
  ec : cfg.escrow ≠ cfg.collector
  dc : cfg.deposit ≠ cfg.collector
  mult_pos : 1 ≤ p.mult
  maxT_pos : 1 ≤ p.maxTimeout
  tax_lt : p.tax < decUnit
  slash_le : p.slash ≤ decUnit
  complaint_pos : 0 < p.complaint
  arbitration_pos : 0 < p.arbitration

/-- Environment assumptions on one operation in a state (E1/E2/E7/E8 of DESIGN.md):
    signers are ordinary accounts (module accounts have no keys; the owner who signs a
    withdraw-address message has a 20-byte address, 40 hex digits here), environment transfers do
    not touch custody accounts, consumers named by other modules are not custody accounts,
    a context id (tx hash, msg index) is never reused, and another module calling the keeper API
    passes arguments that satisfy the module's own stateless validation (a non-empty consumer on
    creation, `ValidateRequestContextUpdating` on update) — E8, used only for C19's validation clause. -/
def WF (s : State) : Op → Prop
  | .fund a _ => ¬ s.custody a
  | .xfer a b _ => ¬ s.modAcct a ∧ ¬ s.custody b
  | .define _ a _ => ¬ s.modAcct a
  | .bind _ _ o _ _ _ => ¬ s.modAcct o
  | .update _ _ o _ _ _ => ¬ s.modAcct o
  | .setwd o _ => ¬ s.modAcct o ∧ o.length = 40
  | .disable _ _ o => ¬ s.modAcct o
  | .enable _ _ o _ => ¬ s.modAcct o
  | .refund _ _ o => ¬ s.modAcct o
  | .call id svc _ cons _ _ _ _ _ _ _ => ¬ s.modAcct cons ∧ id ∉ s.usedIds ∧ s.cfg.modsvc ≠ some svc
  | .modcreate id mod _ _ cons _ _ _ _ _ _ _ _ _ => ¬ s.modAcct cons ∧ id ∉ s.usedIds ∧ mod ≠ "" ∧ cons ≠ ""
  | .respond _ p _ _ => ¬ s.modAcct p
  | .pause _ cons => ¬ s.modAcct cons
  | .start _ cons => ¬ s.modAcct cons
  | .kill _ cons => ¬ s.modAcct cons
  | .updatectx _ cons _ _ _ _ _ => ¬ s.modAcct cons
  | .modpause _ _ => True
  | .modstart _ _ => True
  | .modkill _ _ => True
  | .modupdate _ _ provs _ cap timeout freq total => validateCtxUpdate provs cap timeout freq total = none
  | .withdraw o _ => ¬ s.modAcct o
  | .endblock dt => 0 < dt

/-- states reachable from genesis by well-formed operations -/
inductive Reachable (cfg : Config) (p : Params) (h0 t0 : Int) : State → Prop
  | init : Reachable cfg p h0 t0 (genesis cfg p h0 t0)
  | step {s : State} (op : Op) : Reachable cfg p h0 t0 s → WF s op → Reachable cfg p h0 t0 (step s op).1

/-! ### sums -/
def depositSum (s : State) : Nat := Map.total (fun b : Binding => b.deposit) s.bindings

def feeOf (s : State) (r : ReqId) : Nat :=
  match Map.get s.reqs r with
  | some q => q.fee
  | none => 0

def activeFees (s : State) : Nat := (s.activeI.map (feeOf s)).sum

def earnedSum (s : State) : Nat := Map.total (fun n : Nat => n) s.earned

/-! ### invariants

Each invariant is a structure over exactly the state components it mentions, wrapped by
an `abbrev` over `State`: an operation that does not touch those components preserves the
invariant by definitional unfolding (`exact h`).
-/

/-- configuration facts (E5): distinct module accounts, legal parameters -/
structure Static (cfg : Config) (p : Params) : Prop where
  ed : cfg.escrow ≠ cfg.deposit
  ec : cfg.escrow ≠ cfg.collector
  dc : cfg.deposit ≠ cfg.collector
  mult_pos : 1 ≤ p.mult
  maxT_pos : 1 ≤ p.maxTimeout
  tax_lt : p.tax < decUnit
  slash_le : p.slash ≤ decUnit
  complaint_pos : 0 < p.complaint
  arbitration_pos : 0 < p.arbitration

abbrev InvStatic (s : State) : Prop := Static s.cfg s.params

def isModAcct (cfg : Config) (a : Addr) : Prop := a = cfg.escrow ∨ a = cfg.deposit ∨ a = cfg.collector

/-- the bindings world (C03 backing, C14, C15): deposits, owners, indexes, price terms -/
structure BInv (cfg : Config) (params : Params) (depBal : Nat) (defs : Map SvcName Definition)
    (bindings : Map (SvcName × Addr) Binding) (ownerBind : FSet (Addr × SvcName × Addr))
    (owner : Map Addr Addr) (ownerProv : FSet (Addr × Addr)) (pricing : Map (SvcName × Addr) Pricing) : Prop where
  /-- C03: the deposit account holds exactly the recorded deposits -/
  backed : depBal = Map.total (fun b : Binding => b.deposit) bindings
  ownerOk : ∀ k b, Map.get bindings k = some b → ¬ isModAcct cfg b.owner
  /-- C15: one owner per provider, shared by all its bindings -/
  ownerOf : ∀ svc p b, Map.get bindings (svc, p) = some b → Map.get owner p = some b.owner
  provIdx : ∀ o p, (o, p) ∈ ownerProv ↔ Map.get owner p = some o
  bindIdx : ∀ o svc p, (o, svc, p) ∈ ownerBind ↔ ∃ b, Map.get bindings (svc, p) = some b ∧ b.owner = o
  /-- C15: stored price terms are the parse of the published text -/
  priced : ∀ k b, Map.get bindings k = some b →
      ∃ p, Map.get pricing k = some p ∧ parsePricing b.text = .ok p ∧ validPricing p = true
  pricingOnly : ∀ k, (Map.get pricing k).isSome → (Map.get bindings k).isSome
  defined : ∀ svc p, (Map.get bindings (svc, p)).isSome → (Map.get defs svc).isSome
  ownerHas : ∀ p o, Map.get owner p = some o → ∃ svc, (Map.get bindings (svc, p)).isSome
  /-- C14: an available binding holds the minimum deposit for its price -/
  minDep : ∀ k b, Map.get bindings k = some b → b.avail = true →
      ∃ p md, Map.get pricing k = some p ∧ minDeposit params p = some md ∧ md ≤ b.deposit

abbrev InvB (s : State) : Prop :=
  BInv s.cfg s.params (balOf s.bank.bal s.cfg.deposit) s.defs s.bindings s.ownerBind s.owner s.ownerProv s.pricing

/-- the invocation world (C09 well-formedness, C10 single flight, C11, C16): contexts, the two
    queues with their pointers, request records, responses, pending-request markers -/
structure XInv (cfg : Config) (height : Int) (ctxs : Map CtxId Ctx) (expQ newQ : FSet (Int × CtxId))
    (expH newH : Map CtxId Int) (usedIds : List CtxId) (reqs : Map ReqId Req)
    (activeB : FSet (SvcName × Addr × Int × ReqId)) (activeI : FSet ReqId) (resps : Map ReqId Resp) : Prop where
  ctxWF : ∀ c x, Map.get ctxs c = some x → 1 ≤ x.timeout ∧ (x.rep = true → x.timeout ≤ (x.freq : Int))
  ctxCons : ∀ c x, Map.get ctxs c = some x → ¬ isModAcct cfg x.cons
  newMirror : ∀ h c, (h, c) ∈ newQ ↔ Map.get newH c = some h
  expMirror : ∀ h c, (h, c) ∈ expQ ↔ Map.get expH c = some h
  single    : ∀ c, Map.get newH c = none ∨ Map.get expH c = none
  newFuture : ∀ c h, Map.get newH c = some h → height ≤ h ∧ (Map.get ctxs c).isSome
  expFuture : ∀ c h, Map.get expH c = some h → height ≤ h ∧ (Map.get ctxs c).isSome
  runningQ  : ∀ c x, Map.get ctxs c = some x → x.state = .running →
                (Map.get newH c).isSome ∨ (Map.get expH c).isSome
  used      : ∀ c, (Map.get ctxs c).isSome → c ∈ usedIds
  reqCtx : ∀ r q, Map.get reqs r = some q →
      ∃ x, Map.get ctxs r.ctx = some x ∧ r.batch = x.batch ∧ Map.get expH r.ctx = some q.expH
  activeReq : ∀ r, r ∈ activeI → (Map.get reqs r).isSome
  activeMirror : ∀ svc p e r, (svc, p, e, r) ∈ activeB ↔
      (r ∈ activeI ∧ ∃ q x, Map.get reqs r = some q ∧ Map.get ctxs r.ctx = some x ∧
        svc = x.svc ∧ p = q.prov ∧ e = q.expH)
  respReq : ∀ r, (Map.get resps r).isSome → (Map.get reqs r).isSome ∧ r ∉ activeI
  activeNodup : activeI.Nodup
  /-- C12: a batch is marked running only while its expiry is pending -/
  bRunExp : ∀ c x, Map.get ctxs c = some x → x.bstate = .running → (Map.get expH c).isSome
  /-- pending requests belong to a batch that is still running -/
  activeRunning : ∀ r, r ∈ activeI → ∃ x, Map.get ctxs r.ctx = some x ∧ x.bstate = .running
  /-- pending + answered never exceeds issued, for the batch in flight (so the response that
      brings the count to the number issued is the last pending one) -/
  counts : ∀ c x, Map.get ctxs c = some x → x.bstate = .running →
      (activeI.filter (fun r => r.ctx = c)).length + x.respN ≤ x.reqN

abbrev InvX (s : State) : Prop :=
  XInv s.cfg s.height s.ctxs s.expQ s.newQ s.expH s.newH s.usedIds s.reqs s.activeB s.activeI s.resps

/-- sum of the fees of the pending requests -/
def feeSum (reqs : Map ReqId Req) (active : List ReqId) : Nat :=
  (active.map (fun r => match Map.get reqs r with | some q => q.fee | none => 0)).sum

/-- earnings of the providers owned by `o` -/
def ownedSum (owner : Map Addr Addr) (earned : Map Addr Nat) (o : Addr) : Nat :=
  Map.total (fun n : Nat => n) (earned.filter (fun p => Map.get owner p.1 = some o))

/-- the money world (C01, C13): escrow backing and the double bookkeeping of earnings -/
structure MInv (escBal : Nat) (reqs : Map ReqId Req) (activeI : FSet ReqId)
    (earned ownerEarned : Map Addr Nat) (owner : Map Addr Addr) : Prop where
  /-- C01 -/
  escrow : escBal = feeSum reqs activeI + Map.total (fun n : Nat => n) earned
  earnedK : Map.NodupKeys earned
  ownerEarnedK : Map.NodupKeys ownerEarned
  /-- C13 -/
  ownerSum : ∀ o, balOf ownerEarned o = ownedSum owner earned o
  earnedOwned : ∀ p, (Map.get earned p).isSome → (Map.get owner p).isSome

abbrev InvM (s : State) : Prop :=
  MInv (balOf s.bank.bal s.cfg.escrow) s.reqs s.activeI s.earned s.ownerEarned s.owner

/-- every request record names a bound provider (so a slash always finds its binding and an
    earning always finds its owner), and a request of a super-mode context carries no fee -/
def BoundInv (ctxs : Map CtxId Ctx) (reqs : Map ReqId Req) (bindings : Map (SvcName × Addr) Binding) : Prop :=
  ∀ r q, Map.get reqs r = some q → ∃ x, Map.get ctxs r.ctx = some x ∧ (Map.get bindings (x.svc, q.prov)).isSome ∧
    (x.super = true → q.fee = 0)

abbrev InvBound (s : State) : Prop := BoundInv s.ctxs s.reqs s.bindings

/-- all of them -/
structure Inv (s : State) : Prop where
  static : InvStatic s
  b : InvB s
  x : InvX s
  m : InvM s
  bound : InvBound s

/-- the quantities of the property statements, in terms of a state -/
def ownedEarned (s : State) (o : Addr) : Nat := ownedSum s.owner s.earned o

theorem activeFees_eq (s : State) : activeFees s = feeSum s.reqs s.activeI := by
  unfold activeFees feeSum feeOf; rfl

end SM
