import ServiceModel.Inv.Defs
import ServiceModel.Driver.Wire
import ServiceModel.Model.Genesis
/-!
# Executable monitors

The decidable readings of the invariants and step laws that the property theorems are
about. The driver evaluates them on states and effects parsed from the *implementation's*
trace (and, for cross-checking, on the model's own trace). Each monitor returns the list
of violated clauses (empty = holds).
-/
namespace SM.Mon
open SM

abbrev Viol := List String

def chk (b : Bool) (msg : String) : Viol := if b then [] else [msg]

def getOr {κ ν} [DecidableEq κ] (m : Map κ ν) (k : κ) (d : ν) : ν := (Map.get m k).getD d

/-- one observed step of a trace -/
structure Step where
  pre  : State
  op   : Op
  res  : Res
  effs : List Effect
  post : State

def Step.ok (t : Step) : Bool := t.res == .ok

/-! ## state monitors -/

/-- C01 -/
def escrowBacked (s : State) : Viol :=
  chk (s.bal s.cfg.escrow == activeFees s + earnedSum s)
    s!"escrow balance {s.bal s.cfg.escrow} != pending fees {activeFees s} + earnings {earnedSum s}"

/-- C03 -/
def depositBacked (s : State) : Viol :=
  chk (s.bal s.cfg.deposit == depositSum s)
    s!"deposit account {s.bal s.cfg.deposit} != sum of binding deposits {depositSum s}"

/-- C11, C10 single flight -/
def queues (s : State) : Viol :=
  s.newQ.flatMap (fun p => chk (Map.get s.newH p.2 == some p.1) s!"new-batch entry without matching pointer at {p.1}")
  ++ s.newH.flatMap (fun p => chk (s.newQ.contains (p.2, p.1)) s!"new-batch pointer without entry at {p.2}")
  ++ s.expQ.flatMap (fun p => chk (Map.get s.expH p.2 == some p.1) s!"expiry entry without matching pointer at {p.1}")
  ++ s.expH.flatMap (fun p => chk (s.expQ.contains (p.2, p.1)) s!"expiry pointer without entry at {p.2}")
  ++ s.newH.flatMap (fun p => chk ((Map.get s.expH p.1).isNone) "context has both a new-batch and an expiry event")
  ++ s.newH.flatMap (fun p => chk (decide (s.height ≤ p.2) && (Map.get s.ctxs p.1).isSome) s!"new-batch event in the past or for a missing context (h={p.2}, now={s.height})")
  ++ s.expH.flatMap (fun p => chk (decide (s.height ≤ p.2) && (Map.get s.ctxs p.1).isSome) s!"expiry event in the past or for a missing context (h={p.2}, now={s.height})")
  ++ s.ctxs.flatMap (fun p => chk (p.2.state != .running || (Map.get s.newH p.1).isSome || (Map.get s.expH p.1).isSome)
        "running context with no scheduled event (stranded)")
  ++ chk (decide (s.newQ.Nodup) && decide (s.expQ.Nodup)) "duplicate queue entries"

/-- C11 second sentence, C16 -/
def requests (s : State) : Viol :=
  s.reqs.flatMap (fun p =>
    match Map.get s.ctxs p.1.ctx with
    | none => ["request record of a missing context (orphan)"]
    | some x => chk (p.1.batch == x.batch) "request record outside the current batch (orphan)"
        ++ chk (Map.get s.expH p.1.ctx == some p.2.expH) "request whose context has no pending expiry at the request's expiration height")
  ++ s.activeI.flatMap (fun r => chk ((Map.get s.reqs r).isSome) "pending-request marker without request")
  ++ s.activeB.flatMap (fun p =>
      let r := p.2.2.2
      chk (s.activeI.contains r) "binding-index marker not in the id index" ++
      (match Map.get s.reqs r, Map.get s.ctxs r.ctx with
       | some q, some x => chk (p.1 == x.svc && p.2.1 == q.prov && p.2.2.1 == q.expH) "binding-index marker disagrees with its request"
       | _, _ => ["binding-index marker without request or context"]))
  ++ s.activeI.flatMap (fun r => chk (s.activeB.any (fun p => p.2.2.2 == r)) "id-index marker not in the binding index")
  ++ s.resps.flatMap (fun p => chk ((Map.get s.reqs p.1).isSome) "response without its request" ++
        chk (!s.activeI.contains p.1) "answered request still pending")
  ++ chk (decide s.activeI.Nodup) "duplicate pending-request markers"

/-- C12: counts while the batch is in flight, batch-state law -/
def counts (s : State) : Viol :=
  s.ctxs.flatMap (fun p =>
    let c := p.1; let x := p.2
    let nreq := (s.reqs.filter (fun q => q.1.ctx = c ∧ q.1.batch = x.batch)).length
    let nresp := (s.resps.filter (fun q => q.1.ctx = c ∧ q.1.batch = x.batch)).length
    let nact := (s.activeI.filter (fun r => r.ctx = c)).length
    (if (Map.get s.expH c).isSome then
      chk (x.reqN == nreq) s!"recorded request count {x.reqN} != {nreq} request records" ++
      chk (x.respN == nresp) s!"recorded response count {x.respN} != {nresp} response records"
     else chk (nreq == 0 && nresp == 0) "records of a batch that is not in flight") ++
    chk (nact + nresp == nreq) "pending + answered != issued" ++
    chk ((x.bstate == .running) == ((Map.get s.expH c).isSome && !(x.reqN ≥ 1 && x.respN == x.reqN)))
      "batch state is not: running iff in flight and not fully answered")

/-- C13 -/
def ownerEarnings (s : State) : Viol :=
  (s.ownerEarned.map (·.1) ++ s.owner.map (·.2)).eraseDups.flatMap (fun o =>
    chk (balOf s.ownerEarned o == ownedEarned s o) s!"owner {o}: recorded earnings {balOf s.ownerEarned o} != sum over its providers {ownedEarned s o}")
  ++ s.earned.flatMap (fun p => chk ((Map.get s.owner p.1).isSome) "earnings of a provider without owner")

/-- C14 -/
def minDep (s : State) : Viol :=
  s.bindings.flatMap (fun p =>
    if p.2.avail then
      match parsePricing p.2.text with
      | .ok pr =>
        (match minDeposit s.params pr with
         | some md => chk (md ≤ p.2.deposit) s!"available binding {p.1.1}/{p.1.2} holds {p.2.deposit} < minimum {md}"
         | none => ["minimum deposit overflows"])
      | _ => ["published pricing text of a stored binding does not parse"]
    else [])

/-- C15 state part: indexes are projections of the bindings, terms match the text, validity -/
def indexes (s : State) : Viol :=
  s.bindings.flatMap (fun p =>
    chk (Map.get s.owner p.1.2 == some p.2.owner) "binding owner differs from the provider's owner" ++
    chk (s.ownerBind.contains (p.2.owner, p.1.1, p.1.2)) "binding missing from the owner index" ++
    chk (s.ownerProv.contains (p.2.owner, p.1.2)) "provider missing from the owner's provider index" ++
    chk ((Map.get s.defs p.1.1).isSome) "binding for an undefined service" ++
    (match parsePricing p.2.text, Map.get s.pricing p.1 with
     | .ok pr, some st => chk (pr == st && validPricing pr) "stored price terms differ from the published text"
     | _, _ => ["price terms missing or text unparsable"]) ++
    chk (p.1.2 != "" && p.2.owner != "" && validName p.1.1 && p.2.qos > 0 && pricingTextOk p.2.text) "stored binding violates the validity rules")
  ++ s.ownerBind.flatMap (fun t => chk ((Map.get s.bindings (t.2.1, t.2.2)).any (·.owner == t.1)) "owner-index entry without binding")
  ++ s.owner.flatMap (fun p => chk (s.ownerProv.contains (p.2, p.1)) "owner record without provider-index entry")
  ++ s.ownerProv.flatMap (fun p => chk (Map.get s.owner p.2 == some p.1) "provider-index entry without owner record")
  ++ s.pricing.flatMap (fun p => chk ((Map.get s.bindings p.1).isSome) "price terms without binding")
  ++ s.defs.flatMap (fun p => chk (validName p.1 && p.2.author != "") "stored definition violates the validity rules")

/-! ## step monitors -/

def signer : Op → Option Addr
  | .define _ a _ => some a
  | .bind _ _ o _ _ _ => some o | .update _ _ o _ _ _ => some o | .setwd o _ => some o
  | .disable _ _ o => some o | .enable _ _ o _ => some o | .refund _ _ o => some o
  | .call _ _ _ c _ _ _ _ _ _ _ => some c
  | .respond _ p _ _ => some p
  | .pause _ c => some c | .start _ c => some c | .kill _ c => some c | .updatectx _ c _ _ _ _ _ => some c
  | .withdraw o _ => some o
  | _ => none

def isMsg (op : Op) : Bool := (signer op).isSome

/-- replay the bank effects of a step over the pre-state balances: a transfer the sender
    cannot afford did not happen (the bank emits its event first). Returns the balances. -/
def replayBank (bal : Map Addr Nat) (deposit : Addr) : List Effect → Map Addr Nat
  | [] => bal
  | .transfer a b n :: es =>
    if balOf bal a < n then replayBank bal deposit es
    else
      let m1 := Map.set bal a (balOf bal a - n)
      replayBank (Map.set m1 b (balOf m1 b + n)) deposit es
  | .slash _ _ n :: es => replayBank (Map.set bal deposit (balOf bal deposit - n)) deposit es
  | _ :: es => replayBank bal deposit es

/-- the transfers into `dst` that went through (same replay) -/
def paidInto (bal : Map Addr Nat) (deposit dst : Addr) : List Effect → List (Addr × Nat)
  | [] => []
  | .transfer a b n :: es =>
    if balOf bal a < n then paidInto bal deposit dst es
    else
      let m1 := Map.set bal a (balOf bal a - n)
      (if b == dst && n != 0 then [(a, n)] else []) ++ paidInto (Map.set m1 b (balOf m1 b + n)) deposit dst es
  | .slash _ _ n :: es => paidInto (Map.set bal deposit (balOf bal deposit - n)) deposit dst es
  | _ :: es => paidInto bal deposit dst es

/-- the transfers into `dst` that the bank refused (same replay): the payer could not afford them -/
def failedInto (bal : Map Addr Nat) (deposit dst : Addr) : List Effect → List (Addr × Nat)
  | [] => []
  | .transfer a b n :: es =>
    if balOf bal a < n then (if b == dst then [(a, n)] else []) ++ failedInto bal deposit dst es
    else
      let m1 := Map.set bal a (balOf bal a - n)
      failedInto (Map.set m1 b (balOf m1 b + n)) deposit dst es
  | .slash _ _ n :: es => failedInto (Map.set bal deposit (balOf bal deposit - n)) deposit dst es
  | _ :: es => failedInto bal deposit dst es

def allAccts (t : Step) : List Addr := (t.pre.bank.bal.map (·.1) ++ t.post.bank.bal.map (·.1)).eraseDups

/-- C02 (last sentence), C05: coins move only as the step's transfer / slash effects say -/
def conservation (t : Step) : Viol :=
  match t.op with
  | .fund _ _ => []
  | .xfer _ _ _ => []
  | _ =>
    let m := replayBank t.pre.bank.bal t.pre.cfg.deposit (if t.ok then t.effs else [])
    (allAccts t).flatMap (fun a => chk (balOf m a == t.post.bal a)
      s!"balance of {a} is {t.post.bal a}, the step's transfers give {balOf m a}")

def slashTotal (effs : List Effect) : Nat :=
  effs.foldl (fun n e => match e with | .slash _ _ k => n + k | _ => n) 0

/-- C03 / C04: supply falls exactly by the slashed amounts -/
def supplyLaw (t : Step) : Viol :=
  match t.op with
  | .fund _ _ => []
  | _ => chk (t.post.bank.supply == t.pre.bank.supply - (slashTotal (if t.ok then t.effs else []) : Int))
      "total supply changed by something other than the slashed amounts"

/-- C02: settlement of the requests that stopped being pending in this step -/
def settlement (t : Step) : Viol :=
  let gone := t.pre.activeI.filter (fun r => !t.post.activeI.contains r)
  let fresh := t.post.activeI.filter (fun r => !t.pre.activeI.contains r)
  gone.flatMap (fun r =>
    match Map.get t.pre.reqs r, Map.get t.pre.ctxs r.ctx with
    | some q, some x =>
      (match t.op with
       | .respond r' prov _ out =>
         chk (r' == r && t.ok) "a request stopped being pending in a step that did not answer it" ++
         (if out == .malformed then
            chk (q.fee == 0 || t.effs.contains (.transfer t.pre.cfg.escrow x.cons q.fee)) "malformed output: fee not returned to the consumer"
          else
            let tax := q.fee * t.pre.params.tax / decUnit
            chk (tax == 0 || t.effs.contains (.transfer t.pre.cfg.escrow t.pre.cfg.collector tax)) "tax not paid to the fee collector" ++
            chk (balOf t.post.earned prov == balOf t.pre.earned prov + (q.fee - tax)) "provider earnings not increased by fee - tax" ++
            chk (!t.effs.any (fun e => match e with | .transfer _ d _ => d == x.cons | _ => false)) "fee returned although the response was accepted")
       | .endblock _ =>
         chk (q.expH == t.pre.height) "request deactivated by end-of-block before/after its expiry height" ++
         chk (x.super || q.fee == 0 || t.effs.contains (.transfer t.pre.cfg.escrow x.cons q.fee)) "expired request: fee not returned to the consumer"
       | _ => ["a request stopped being pending in a step that neither answered nor expired it"])
    | _, _ => ["pending request without record in the pre-state"])
  ++ fresh.flatMap (fun r =>
      match t.op with
      | .endblock _ => chk ((Map.get t.post.reqs r).any (fun q => q.reqH == t.pre.height) && r.height == t.pre.height.toNat) "new pending request not issued in this block"
      | _ => ["a request became pending outside end-of-block"])
  ++ -- requests pending across an end-of-block at their expiry height must be gone
    (match t.op with
     | .endblock _ => t.post.activeI.flatMap (fun r => match Map.get t.post.reqs r with
        | some q => chk (q.expH ≥ t.post.height) "request still pending after its expiry block ended"
        | none => [])
     | _ => [])

/-- C02: a consumer is debited at batch start by exactly the fees of the requests issued -/
/- (requests issued in this step = records that the previous state did not hold: a request stamped earlier in the same
   block by a module-service call has the same request height) -/
def batchDebit (t : Step) : Viol :=
  match t.op with
  | .endblock _ =>
    t.post.ctxs.flatMap (fun p =>
      let c := p.1; let x := p.2
      let issued := t.post.reqs.filter (fun q => q.1.ctx = c ∧ q.1.batch = x.batch ∧ q.2.reqH = t.pre.height ∧ (Map.get t.pre.reqs q.1).isNone)
      if issued.isEmpty then [] else
        let total := (issued.map (·.2.fee)).sum
        chk (total == 0 || t.effs.contains (.transfer x.cons t.pre.cfg.escrow total)) s!"batch of {issued.length} requests issued without a single debit of their total {total}")
    -- … and fee money enters the escrow in no other way: every payment into it that went through is the total of
    -- a batch issued in this block for a context of the payer (a skipped batch costs nothing; a consumer that
    -- cannot pay is not charged: the bank emitted its event and refused)
    ++ (paidInto t.pre.bank.bal t.pre.cfg.deposit t.pre.cfg.escrow t.effs).flatMap (fun an =>
          chk (t.post.ctxs.any (fun p =>
            p.2.cons == an.1 &&
            ((t.post.reqs.filter (fun q => q.1.ctx = p.1 ∧ q.1.batch = p.2.batch ∧ q.2.reqH = t.pre.height ∧ (Map.get t.pre.reqs q.1).isNone)).map (·.2.fee)).sum == an.2))
            s!"{an.1} paid {an.2} into the escrow although no batch with that total was issued for it in this block")
  | _ => []

/-- C03: how a binding's deposit may change in one step; refund preconditions -/
def depositLaw (t : Step) : Viol :=
  t.post.bindings.flatMap (fun p =>
    let old := (Map.get t.pre.bindings p.1).map (·.deposit) |>.getD 0
    let new := p.2.deposit
    if new > old then
      (match t.op with
       | .bind svc prov o (some d) _ _ => chk (t.ok && (svc, prov) == p.1 && o == p.2.owner && d == new - old && t.effs.contains (.transfer o t.pre.cfg.deposit d)) "deposit grew in a bind not matching owner/amount"
       | .update svc prov o (some d) _ _ => chk (t.ok && (svc, prov) == p.1 && o == p.2.owner && d == new - old && t.effs.contains (.transfer o t.pre.cfg.deposit d)) "deposit grew in an update not matching owner/amount"
       | .enable svc prov o (some d) => chk (t.ok && (svc, prov) == p.1 && o == p.2.owner && d == new - old && t.effs.contains (.transfer o t.pre.cfg.deposit d)) "deposit grew in an enable not matching owner/amount"
       | _ => ["deposit grew in a step that is not a bind/update/enable by its owner"])
    else if new < old then
      (match t.op with
       | .refund svc prov o =>
         chk (t.ok && (svc, prov) == p.1 && new == 0 && o == p.2.owner && t.effs.contains (.transfer t.pre.cfg.deposit o old)) "refund did not return the entire deposit to the owner"
       | _ => chk (t.effs.any (fun e => match e with | .slash _ pr n => pr == p.1.2 && n ≤ old - new | _ => false)) "deposit shrank without slash or refund")
    else [])
  ++ (match t.op with
      | .refund svc prov o =>
        if t.ok then
          match Map.get t.pre.bindings (svc, prov) with
          | some b => chk (o == b.owner && !b.avail && b.deposit != 0 &&
              decide (t.pre.time ≥ b.disabledAt + t.pre.params.arbitration + t.pre.params.complaint)) "refund accepted although its preconditions do not hold"
          | none => ["refund accepted for a missing binding"]
        else
          (match Map.get t.pre.bindings (svc, prov), t.res with
           | some b, .err _ => chk (!(validateBasic t.op && o == b.owner && !b.avail && b.deposit != 0 &&
               decide (t.pre.time ≥ b.disabledAt + t.pre.params.arbitration + t.pre.params.complaint))) "refund rejected although its preconditions hold"
           | _, _ => [])
      | _ => [])

/-- the slash effects of a step, folded over the bindings: amounts, deposits, auto-disable -/
def slashAmounts (t : Step) : Viol :=
  let slashes := t.effs.filterMap (fun e => match e with | .slash r p n => some (r, p, n) | _ => none)
  let step (acc : Map (SvcName × Addr) Binding × Viol) (e : ReqId × Addr × Nat) : Map (SvcName × Addr) Binding × Viol :=
    let (r, p, n) := e
    match Map.get t.pre.ctxs r.ctx with
    | none => (acc.1, acc.2 ++ ["slash for a request of an unknown context"])
    | some x =>
      match Map.get acc.1 (x.svc, p) with
      | none => (acc.1, acc.2 ++ ["slash of a missing binding"])
      | some b =>
        let want := b.deposit * t.pre.params.slash / decUnit
        let b1 := { b with deposit := b.deposit - n }
        let md := (minDeposit t.pre.params (storedPricing t.pre x.svc p)).getD 0
        let b2 := if b1.avail && b1.deposit < md then { b1 with avail := false, disabledAt := t.pre.time } else b1
        (Map.set acc.1 (x.svc, p) b2, acc.2 ++ chk (n == want) s!"slash of {n}, expected floor(deposit {b.deposit} x fraction) = {want}")
  let (bs, v) := slashes.foldl step (t.pre.bindings, [])
  v ++ (if slashes.isEmpty then [] else
    bs.flatMap (fun p => match Map.get t.post.bindings p.1 with
      | some b' => chk (b'.deposit == p.2.deposit && b'.avail == p.2.avail && b'.disabledAt == p.2.disabledAt)
          s!"binding {p.1.1}/{p.1.2} after slashing: deposit/availability/disabled time not as the slash rule gives"
      | none => ["binding vanished"]))

/-- C04: exactly the failures are slashed -/
def slashLaw (t : Step) : Viol :=
  let slashed := t.effs.filterMap (fun e => match e with | .slash r _ _ => some r | _ => none)
  (match t.op with
   | .respond r _ _ out =>
     chk (slashed == (if t.ok && out == .malformed then [r] else [])) "respond: slash effects are not exactly {the malformed answer}"
   | .endblock _ =>
     let due := t.pre.activeI.filter (fun r =>
        match Map.get t.pre.reqs r, Map.get t.pre.ctxs r.ctx with
        | some q, some x => q.expH == t.pre.height && !x.super
        | _, _ => false)
     chk (decide (slashed.Nodup)) "a request slashed twice" ++
     chk (due.all slashed.contains) "an expired unanswered request was not slashed" ++
     chk (slashed.all due.contains) "a slash for something that is not an expired unanswered non-super request"
   | _ => chk slashed.isEmpty "slash in a step that is neither a response nor end-of-block")
  ++ (if t.ok then slashAmounts t else [])

/-- C05 -/
def authority (t : Step) : Viol :=
  let s := t.pre
  (if t.ok then
    match t.op with
    | .update svc p o _ _ _ | .disable svc p o | .enable svc p o _ | .refund svc p o =>
      chk ((Map.get s.bindings (svc, p)).any (·.owner == o)) "binding operation accepted from a non-owner"
    | .withdraw o p => chk (p == "" || Map.get s.owner p == some o) "withdrawal accepted from a non-owner"
    | .pause c cons | .start c cons | .kill c cons | .updatectx c cons _ _ _ _ _ =>
      chk ((Map.get s.ctxs c).any (fun x => x.cons == cons && x.mod == "")) "context message accepted from a non-consumer or for a module-owned context"
    | .respond r p _ _ => chk ((Map.get s.reqs r).any (·.prov == p)) "response accepted from an account other than the request's provider"
    | .bind svc p o _ _ _ =>
      chk ((Map.get s.owner p).all (· == o)) "bound a provider that belongs to another owner" ++
      chk (s.cfg.modsvc != some svc) "bound a service reserved by a module"
    | _ => []
   else [])
  ++ (match signer t.op with
      | some sg => (allAccts t).flatMap (fun a =>
          chk (a == sg || a == s.cfg.escrow || a == s.cfg.deposit || a == s.cfg.collector || t.post.bal a ≥ s.bal a)
            s!"a message lowered the balance of {a}, which is not its signer")
      | none =>
        match t.op with
        | .endblock _ => (allAccts t).flatMap (fun a =>
            chk (a == s.cfg.escrow || a == s.cfg.deposit || a == s.cfg.collector || t.post.bal a ≥ s.bal a ||
              t.post.ctxs.any (fun p => p.2.cons == a && p.2.state == .running &&
                t.post.reqs.any (fun q => q.1.ctx == p.1 && q.2.reqH == s.height)))
              s!"end-of-block lowered the balance of {a}, which has no running context that issued a batch")
        | _ => [])

/-- the providers of context `x` eligible at the end of this block, with their prices: from the post-state bindings
    (the end of a block changes bindings only in its expiry phase, which precedes the new batches) -/
def eligibleAt (t : Step) (x : Ctx) : List (Addr × Nat) :=
  x.provs.filterMap (fun pr =>
    match Map.get t.post.bindings (x.svc, pr) with
    | none => none
    | some b =>
      match parsePricing b.text with
      | .ok pricing =>
        let price := priceOf pricing t.pre.time (getOr t.pre.volume (x.cons, x.svc, pr) 0)
        if b.avail && decide ((b.qos : Int) ≤ x.timeout) && price ≤ x.cap then some (pr, price) else none
      | _ => none)

/-- the end blocker pauses a running context only when its consumer cannot pay the batch (C06, C09): it is a violation
    when what the consumer held before the block, less everything it paid in this block, covers the batch's total -/
def pausedAlthoughFunded (t : Step) (x : Ctx) : Viol :=
  if !x.super then
    let el := eligibleAt t x
    let total := (el.map (·.2)).sum
    let paid := ((paidInto t.pre.bank.bal t.pre.cfg.deposit t.pre.cfg.escrow t.effs).filter (·.1 == x.cons)).map (·.2) |>.sum
    chk (!(el.length > 0 && el.length ≥ x.thr && paid + total ≤ t.pre.bal x.cons))
      s!"context paused by the end blocker although its consumer could pay the batch ({total}, after paying {paid} of {t.pre.bal x.cons} in this block)"
  else []

/-- C06 / C07: requests issued in this end-of-block versus eligibility and pricing recomputed
    from the published text of the post-expiry bindings -/
def issueLaw (t : Step) : Viol :=
  -- C18: the harness marks an issue event whose k-th entry is not the stored request with index k
  (t.effs.flatMap (fun e => match e with
    | .ev "new_batch_request_misordered" _ => ["request id does not record its position in the issue event (entry k of the event is not the request with index k)"]
    | _ => [])) ++
  match t.op with
  | .endblock _ =>
    t.pre.ctxs.flatMap (fun p =>
      let c := p.1; let x := p.2
      match Map.get t.post.ctxs c with
      | none => []
      | some x' =>
        if x'.batch == x.batch then
          chk (!t.post.reqs.any (fun q => q.1.ctx == c && q.2.reqH == t.pre.height)) "requests issued without advancing the batch counter" ++
          -- the end blocker pauses a running context only when its consumer cannot pay the batch: it is a violation when
          -- what the consumer held before the block, less everything it paid in this block, covers the batch's total
          (if x.state == .running && x'.state == .paused then pausedAlthoughFunded t x else [])
        else
          let issued := sortReqIds ((t.post.reqs.filter (fun q => q.1.ctx = c ∧ q.1.batch = x'.batch)).map (·.1))
          let provsIssued := issued.filterMap (fun r => (Map.get t.post.reqs r).map (·.prov))
          let el := eligibleAt t x
          chk (x.state == .running) "batch counter advanced for a context that was not running" ++
          chk (x'.batch == x.batch + 1) "batch counter advanced by more than one" ++
          (if el.length > 0 && el.length ≥ x.thr then
             (if provsIssued.isEmpty then ["enough providers are eligible, yet the batch was skipped"] else
              chk (provsIssued == el.map (·.1)) s!"requests went to {provsIssued}, eligible providers are {el.map (·.1)}" ++
              (issued.zip el).flatMap (fun (r, e) =>
                match Map.get t.post.reqs r with
                | some q => chk (q.fee == (if x.super then 0 else e.2)) s!"request fee {q.fee} differs from the published price {e.2}" ++
                            chk (q.fee ≤ x.cap) "request fee above the fee cap" ++
                            chk (q.expH == t.pre.height + x.timeout && q.reqH == t.pre.height) "request heights wrong" ++
                            chk (r.index + 1 ≤ issued.length && issued[r.index]? == some r) "request id does not record its position"
                | none => []))
           else chk provsIssued.isEmpty "requests issued although too few providers are eligible (batch must be skipped)"))
  | _ => []

/-- C07: the volume counts the accepted responses -/
def volumeLaw (t : Step) : Viol :=
  let keys := (t.pre.volume.map (·.1) ++ t.post.volume.map (·.1)).eraseDups
  keys.flatMap (fun k =>
    let a := getOr t.pre.volume k 0
    let b := getOr t.post.volume k 0
    match t.op with
    | .respond r p _ _ =>
      let mine := t.ok && (match Map.get t.pre.ctxs r.ctx with | some x => k == (x.cons, x.svc, p) | none => false)
      chk (b == (if mine then a + 1 else a)) "request volume did not advance by exactly one for the accepted response"
    | _ => chk (a == b) "request volume changed without a response")

/-- C08 -/
def respondLaw (t : Step) : Viol :=
  match t.op with
  | .respond r p _ _ =>
    if !validateBasic t.op then chk (t.res == .invalid) "stateless-invalid response not rejected as such" else
    let should := (Map.get t.pre.reqs r).any (·.prov == p) && (Map.get t.pre.ctxs r.ctx).isSome && t.pre.activeI.contains r
    chk (t.ok == should) s!"response accepted={t.ok} but request known/provider matches/pending={should}" ++
    (if t.ok then chk ((Map.get t.post.resps r).isSome && !t.post.activeI.contains r) "accepted response not recorded or request still pending" else [])
  | _ => []

def totalReached (x : Ctx) : Bool := decide ((0 : Int) ≤ x.total) && decide (x.total ≤ Int.ofNat x.batch)

/-- C09 -/
def lifecycle (t : Step) : Viol :=
  t.pre.ctxs.flatMap (fun p =>
    let c := p.1; let x := p.2
    match Map.get t.post.ctxs c with
    | none =>
      (match t.op with
       | .endblock _ =>
         chk (x.state != .paused) "a paused context was removed (only finished contexts are: killed, one-shot expired, total reached)" ++
         chk (x.state != .running || !x.rep || totalReached x) "a running repeated context was removed before reaching its total"
       | _ => ["context removed outside end-of-block"])
    | some y =>
      (match t.op with
       | .endblock _ =>
         -- C16 / C10: a context that has finished is removed when the expiry of its batch is handled
         chk (!(t.ok && t.pre.expQ.contains (t.pre.height, c) &&
                (x.state == .completed || (x.state == .running && (!x.rep || totalReached x)))))
           "a finished context (killed, one-shot expired or total reached) was not removed at its batch expiry"
       | _ => []) ++
      chk (x.svc == y.svc && x.cons == y.cons && x.super == y.super && x.rep == y.rep && x.mod == y.mod) "immutable field of a context changed" ++
      -- providers, cap, timeout, frequency, total and threshold are what the consumer (or the owning module) set:
      -- they change only in an accepted update aimed at this context
      chk ((x.provs == y.provs && x.cap == y.cap && x.timeout == y.timeout && x.freq == y.freq && x.total == y.total && x.thr == y.thr) ||
           (t.ok && (match t.op with
                     | .updatectx c' _ _ _ _ _ _ => c' == c
                     | .modupdate c' _ _ _ _ _ _ _ => c' == c
                     | _ => false)))
        "providers, fee cap, timeout, frequency, total or threshold of a context changed without an update of that context" ++
      chk (y.batch == x.batch || y.batch == x.batch + 1) "batch counter did not stay or advance by one" ++
      chk (y.batch == x.batch || (x.state == .running && (match t.op with | .endblock _ => true | _ => false))) "batch issued for a context that is not running, or outside end-of-block" ++
      chk (x.state != .completed || y.state == .completed) "completed context left the completed state" ++
      chk (x.state != .completed || x == y || (match t.op with | .endblock _ => true | .respond _ _ _ _ => true | _ => false)) "completed context was updated" ++
      (if x.state == y.state then [] else
        match t.op, x.state, y.state with
        | .pause c' _, .running, .paused => chk (c' == c && x.rep) "pause"
        | .modpause c' _, .running, .paused => chk (c' == c && x.rep) "pause"
        | .start c' _, .paused, .running => chk (c' == c) "start"
        | .modstart c' _, .paused, .running => chk (c' == c) "start"
        | .kill c' _, _, .completed => chk (c' == c && x.rep) "kill"
        | .modkill c' _, _, .completed => chk (c' == c && x.rep) "kill"
        | .endblock _, .running, .paused => chk (y.batch == x.batch) "pause for lack of funds advanced the batch counter" ++
            pausedAlthoughFunded t x
        | _, a, b => [s!"illegal transition {repr a} -> {repr b}"]))
  ++ t.post.ctxs.flatMap (fun p => match Map.get t.pre.ctxs p.1 with
      | some _ => []
      | none => match t.op with
        | .call id .. => chk (id == p.1) "context appeared under another id"
        | .modcreate id .. => chk (id == p.1) "context appeared under another id"
        | _ => ["context appeared in a step that is not a call"])

/-- C12: module callbacks of a step -/
def callbacks (t : Step) : Viol :=
  let cbs := t.effs.filterMap (fun e => match e with | .respcb c outs f => some (c, outs, f) | _ => none)
  cbs.flatMap (fun (c, outs, f) =>
    match Map.get t.pre.ctxs c with
    | none => ["response callback for an unknown context"]
    | some x =>
      chk (x.mod != "") "response callback for a context not created by a module" ++
      chk ((cbs.filter (·.1 == c)).length == 1) "two response callbacks for one context in one step" ++
      -- outputs: the non-empty outputs of the batch's responses (pre-state records plus this step's response)
      (let recs := (t.pre.resps.filter (fun q => q.1.ctx = c ∧ q.1.batch = x.batch)).map (fun q => (q.1, q.2.out))
       let recs := match t.op with
         | .respond r _ _ out => if r.ctx == c && t.ok then recs ++ [(r, out)] else recs
         | _ => recs
       let want := ((sortReqIds (recs.map (·.1))).filterMap (fun r => (recs.find? (·.1 == r)).map (·.2))).filter (· != .absent)
       chk (outs == want) "callback outputs are not the non-empty outputs of the batch's responses" ++
       chk (f == decide (outs.length < x.bthr)) "callback error flag is not: fewer outputs than the threshold"))
  ++ -- every batch of a module context that completes in this step has its callback
    t.pre.ctxs.flatMap (fun p =>
      if p.2.mod == "" || p.2.bstate != .running then [] else
        let doneNow := match Map.get t.post.ctxs p.1 with
          | some y => y.bstate == .completed || y.batch != p.2.batch
          | none => true
        if doneNow && t.ok then chk (cbs.any (·.1 == p.1)) "batch of a module context completed without its response callback" else
        chk (!cbs.any (·.1 == p.1)) "response callback although the batch did not complete")

/-- C13: withdrawal -/
def withdrawLaw (t : Step) : Viol :=
  match t.op with
  | .withdraw o p =>
    if !t.ok then [] else
    let dst := getOr t.pre.withdraw o o
    let paid := if p == "" then balOf t.pre.ownerEarned o else balOf t.pre.earned p
    chk (paid == 0 || t.effs == [.transfer t.pre.cfg.escrow dst paid]) s!"withdrawal did not pay exactly {paid} to the withdrawal address {dst}" ++
    (t.pre.earned.flatMap (fun q =>
      let mine := if p == "" then Map.get t.pre.owner q.1 == some o else q.1 == p
      chk (balOf t.post.earned q.1 == (if mine then 0 else q.2)) s!"earnings record of {q.1} after withdrawal")) ++
    (t.pre.ownerEarned.flatMap (fun q =>
      chk (balOf t.post.ownerEarned q.1 == (if q.1 == o then q.2 - paid else q.2)) s!"owner record of {q.1} after withdrawal"))
  | .setwd _ _ => []
  | _ => chk (t.post.withdraw == t.pre.withdraw) "withdrawal address changed by something other than the owner's message"

/-- C15 step part: definitions immutable, binding identity stable -/
def stability (t : Step) : Viol :=
  t.pre.defs.flatMap (fun p => chk (Map.get t.post.defs p.1 == some p.2) "a service definition changed or disappeared")
  ++ t.pre.bindings.flatMap (fun p => chk ((Map.get t.post.bindings p.1).any (·.owner == p.2.owner)) "a binding disappeared or changed its owner")
  ++ t.pre.owner.flatMap (fun p => chk (Map.get t.post.owner p.1 == some p.2) "a provider changed its owner")
  ++ (match t.op with
      | .define n _ _ => chk (!(t.ok && (Map.get t.pre.defs n).isSome)) "second definition with the same name accepted"
      | .bind svc p _ _ _ _ => chk (!(t.ok && (Map.get t.pre.bindings (svc, p)).isSome)) "second binding for the same service and provider accepted"
      | _ => [])

/-- decidable reading of `SameRecords` (Proofs/RestartStable.lean: `restart_sameRecords`): what a zero-height restart
    must give back, as lookups — evaluated on the implementation's states before and after a `restart` op; the
    violations are attributed to the monitors `stability` (definitions, bindings, owners) and `withdrawLaw` -/
def restartKeeps (pre post : State) : List (String × String) :=
  (pre.defs.flatMap (fun p => chk (Map.get post.defs p.1 == some p.2) s!"definition {p.1} changed or disappeared at a restart")
   ++ post.defs.flatMap (fun p => chk ((Map.get pre.defs p.1).isSome) s!"definition {p.1} appeared at a restart")
   ++ pre.bindings.flatMap (fun p => chk (decide (Map.get post.bindings p.1 = some p.2)) s!"binding {p.1.1}/{p.1.2} changed or disappeared at a restart")
   ++ post.bindings.flatMap (fun p => chk ((Map.get pre.bindings p.1).isSome) s!"binding {p.1.1}/{p.1.2} appeared at a restart")
   ++ pre.owner.flatMap (fun p => chk (Map.get post.owner p.1 == some p.2) s!"provider {p.1} changed or lost its owner at a restart")
   ++ post.owner.flatMap (fun p => chk ((Map.get pre.owner p.1).isSome) s!"provider {p.1} got an owner at a restart")).map (fun v => ("stability", v))
  ++ (pre.withdraw.flatMap (fun p => chk (Map.get post.withdraw p.1 == some p.2) s!"withdrawal address of {p.1} changed or disappeared at a restart")
   ++ post.withdraw.flatMap (fun p => chk ((Map.get pre.withdraw p.1).isSome) s!"withdrawal address of {p.1} appeared at a restart")).map (fun v => ("withdrawLaw", v))

/-- decidable reading of `restart_ctxs` (Proofs/OnceRestart.lean): the contexts after a restart are exactly the contexts
    before it, each reset and otherwise unchanged — attributed to the monitor `lifecycle` -/
def restartCtxs (pre post : State) : Viol :=
  pre.ctxs.flatMap (fun p => chk (decide (Map.get post.ctxs p.1 = some (resetCtx p.2)))
    "a context was lost or changed by a restart beyond being paused with its batch completed")
  ++ post.ctxs.flatMap (fun p => chk ((Map.get pre.ctxs p.1).isSome) "a context appeared at a restart")

/-- C20: no panic -/
def noPanic (t : Step) : Viol :=
  match t.res with
  | .panic m => [s!"panic: {m}"]
  | _ => []

/-- rejected messages change nothing (C08 last clause, generally the cache discipline) -/
def rejectedNoChange (t : Step) : Viol :=
  if t.ok then [] else
  match t.op with
  | .endblock _ => []
  | _ => chk (Wire.sortLines (Wire.stateLines t.pre) == Wire.sortLines (Wire.stateLines t.post)) "a rejected operation changed the state"

end SM.Mon

namespace SM.Mon
open SM

/-- all monitors of a step, tagged by name -/
def allMonitors (t : Step) : List (String × Viol) :=
  [ ("escrowBacked", escrowBacked t.post), ("depositBacked", depositBacked t.post),
    ("queues", queues t.post), ("requests", requests t.post), ("counts", counts t.post),
    ("ownerEarnings", ownerEarnings t.post), ("minDep", minDep t.post), ("indexes", indexes t.post),
    ("conservation", conservation t), ("supplyLaw", supplyLaw t), ("settlement", settlement t),
    ("batchDebit", batchDebit t), ("depositLaw", depositLaw t), ("slashLaw", slashLaw t),
    ("authority", authority t), ("issueLaw", issueLaw t), ("volumeLaw", volumeLaw t), ("respondLaw", respondLaw t),
    ("lifecycle", lifecycle t), ("callbacks", callbacks t), ("withdrawLaw", withdrawLaw t),
    ("stability", stability t), ("noPanic", noPanic t), ("rejectedNoChange", rejectedNoChange t) ]


/-! ## C10: a history monitor with a ghost record per context -/

structure GhostCtx where
  created    : Int             -- height of the block containing the call
  lastStart  : Option Int      -- height at which the last batch was issued or skipped
  lastExpiry : Option Int      -- the expiry height of that batch
  clean      : Bool            -- running with unchanged timeout/frequency ever since the last start
  freqAtStart : Nat
  maxTotal   : Option Int      -- largest total ever in force; `none` once a negative (unbounded) total was in force
  restarted  : Bool := false   -- the context went through a zero-height restart (op `restart`): the preparation cancelled
                               -- and refunded whatever batch it had in flight and left it paused, so that even a one-shot
                               -- context can be started again by its consumer and then gets a second batch number
deriving Repr

abbrev Ghost := Map CtxId GhostCtx

def maxTot (g : Option Int) (t : Int) : Option Int :=
  match g with
  | none => none
  | some m => if t < (0 : Int) then none else some (if t > m then t else m)

/-- C10 on one step, updating the ghost -/
def cadence (g : Ghost) (t : Step) : Ghost × Viol :=
  -- contexts created in this step
  let g1 := t.post.ctxs.foldl (fun (g : Ghost) p =>
    match Map.get t.pre.ctxs p.1, Map.get g p.1 with
    | none, none => Map.set g p.1 { created := t.pre.height, lastStart := none, lastExpiry := none, clean := false,
                                    freqAtStart := p.2.freq, maxTotal := if p.2.total < (0 : Int) then none else some p.2.total }
    | _, _ => g) g
  let isEnd := match t.op with | .endblock _ => true | _ => false
  t.post.ctxs.foldl (fun (acc : Ghost × Viol) p =>
    let c := p.1; let y := p.2
    match Map.get acc.1 c with
    | none => acc
    | some gc =>
      let gc := { gc with maxTotal := maxTot gc.maxTotal y.total }
      match Map.get t.pre.ctxs c with
      | none => (Map.set acc.1 c gc, acc.2)
      | some x =>
        let started := y.batch != x.batch
        let v1 := if started then
            chk isEnd "batch started outside end-of-block" ++
            (match gc.lastExpiry with
             | some e => chk (decide (t.pre.height ≥ e)) s!"batch {y.batch} started at {t.pre.height}, before the previous batch expired (at {e}): two batches in flight"
             | none => []) ++
            (match gc.lastStart with
             | some ls => if gc.clean then chk (t.pre.height == ls + (gc.freqAtStart : Int))
                 s!"context stayed running with unchanged timeout/frequency {gc.freqAtStart}, yet consecutive batches started at {ls} and {t.pre.height}" else []
             | none => []) ++
            chk (x.rep || y.batch ≤ 1 || gc.restarted) "a one-shot context got a second batch" ++
            (match gc.maxTotal with
             | some m => chk (!x.rep || decide ((y.batch : Int) ≤ m)) s!"batch {y.batch} exceeds the largest total ever in force ({m})"
             | none => [])
          else []
        -- first batch in the block of the call
        let v2 := if isEnd && t.pre.height == gc.created && x.batch == 0 && x.state == .running then
            chk (y.batch == 1 || y.state == .paused) "context still running at the end of the block of its call, but no first batch was issued or skipped"
          else []
        let clean' := if started then y.state == .running
          else gc.clean && y.state == .running && x.state == .running && y.timeout == x.timeout && y.freq == x.freq
        let gc' := if started then
            { gc with lastStart := some t.pre.height, lastExpiry := some (t.pre.height + y.timeout), clean := clean', freqAtStart := y.freq }
          else { gc with clean := clean' }
        (Map.set acc.1 c gc', acc.2 ++ v1 ++ v2)) (g1, [])

end SM.Mon
