import ServiceModel.Keys.Layout
/-!
# Request-context ids and request ids at byte level: the definitions (core Lean only)

`types/invocation.go` `GenerateRequestContextID`, `SplitRequestContextID`, `GenerateRequestID`,
`SplitRequestID` written by hand, including the Go integer conversions (`uint64(int64)`,
`int64(uint64)`, `uint16(int16)`, `int16(uint16)` are two's complement).  The theorems are in
`Keys/Ids.lean`; `driver ids` executes these definitions.
-/
namespace SM.Keys

/-- `uint64(x)` for `x : int64` -/
def u64 (x : Int) : Nat := (x % 2 ^ 64).toNat
/-- `uint16(x)` for `x : int16` -/
def u16 (x : Int) : Nat := (x % 2 ^ 16).toNat
/-- `intN(x)` for an unsigned `x` of `w` bytes -/
def toSigned (w : Nat) (n : Nat) : Int := if n < 2 ^ (8 * w - 1) then (n : Int) else (n : Int) - 2 ^ (8 * w)

/-- Go's `l[a:b]` -/
def sliceOf (a b : Nat) (l : Bytes) : Bytes := (l.take b).drop a

/-- `GenerateRequestContextID(txHash, msgIndex)` -/
def genCtxId (hash : Bytes) (idx : Int) : Bytes := hash ++ beN 8 (u64 idx)

/-- `SplitRequestContextID(contextID)`; `none` is the error -/
def splitCtxId (id : Bytes) : Option (Bytes × Int) :=
  if id.length = 40 then some (sliceOf 0 32 id, toSigned 8 (fromBE (sliceOf 32 40 id))) else none

/-- `GenerateRequestID(requestContextID, batchCounter, requestHeight, batchRequestIndex)`;
    `batch` is the uint64 value -/
def genReqId (ctx : Bytes) (batch : Nat) (height : Int) (index : Int) : Bytes :=
  ctx ++ (beN 8 batch ++ (beN 8 (u64 height) ++ beN 2 (u16 index)))

/-- `SplitRequestID(requestID)`; `none` is the error -/
def splitReqId (id : Bytes) : Option (Bytes × Nat × Int × Int) :=
  if id.length = 58 then
    some (sliceOf 0 40 id, fromBE (sliceOf 40 48 id), toSigned 8 (fromBE (sliceOf 48 56 id)),
      toSigned 2 (fromBE (sliceOf 56 58 id)))
  else none

end SM.Keys
