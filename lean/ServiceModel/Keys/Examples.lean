import ServiceModel.Keys.Proofs
/-!
# A model of the `BechOK` hypothesis (core Lean only)

`hexish` writes every byte as two non-zero bytes (its nibbles plus one).  It is injective and
never produces `0x00`, so `BechOK` is satisfiable and the key theorems are not vacuous.  (The real
bech32 is `Keys/Bech32.lean`; its injectivity is the named hypothesis, sampled by the differential.)
-/
namespace SM.Keys

def hexish (x : Bytes) : Bytes :=
  x.flatMap (fun b => [UInt8.ofNat (b.toNat / 16 + 1), UInt8.ofNat (b.toNat % 16 + 1)])

theorem ofNat_inj_small (n m : Nat) (hn : n < 256) (hm : m < 256) (h : UInt8.ofNat n = UInt8.ofNat m) : n = m := by
  have := congrArg UInt8.toNat h
  simp only [UInt8.toNat_ofNat'] at this
  omega

theorem hexish_cons (b : UInt8) (x : Bytes) :
    hexish (b :: x) = UInt8.ofNat (b.toNat / 16 + 1) :: UInt8.ofNat (b.toNat % 16 + 1) :: hexish x := by
  simp [hexish]

theorem hexish_inj : ∀ a b : Bytes, hexish a = hexish b → a = b
  | [], [], _ => rfl
  | [], _ :: _, h => by simp [hexish] at h
  | _ :: _, [], h => by simp [hexish] at h
  | c :: a, d :: b, h => by
    rw [hexish_cons, hexish_cons] at h
    simp only [List.cons.injEq] at h
    obtain ⟨h1, h2, h3⟩ := h
    have hc := c.toNat_lt
    have hd := d.toNat_lt
    have e1 := ofNat_inj_small _ _ (by omega) (by omega) h1
    have e2 := ofNat_inj_small _ _ (by omega) (by omega) h2
    have : c = d := UInt8.toNat_inj.mp (by omega)
    rw [this, hexish_inj a b h3]

theorem hexish_zfree : ∀ a : Bytes, (0 : UInt8) ∉ hexish a
  | [] => by simp [hexish]
  | c :: a => by
    rw [hexish_cons]
    have hc := c.toNat_lt
    have n1 : (0 : UInt8) ≠ UInt8.ofNat (c.toNat / 16 + 1) := by
      intro h
      have := congrArg UInt8.toNat h
      simp only [UInt8.toNat_ofNat', UInt8.toNat_zero] at this
      omega
    have n2 : (0 : UInt8) ≠ UInt8.ofNat (c.toNat % 16 + 1) := by
      intro h
      have := congrArg UInt8.toNat h
      simp only [UInt8.toNat_ofNat', UInt8.toNat_zero] at this
      omega
    simp only [List.mem_cons, not_or]
    exact ⟨n1, n2, hexish_zfree a⟩

theorem hexish_ok : BechOK hexish := ⟨hexish_inj, hexish_zfree⟩

end SM.Keys
