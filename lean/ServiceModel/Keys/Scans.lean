import ServiceModel.Keys.Ids
/-!
# The well-formedness hypotheses and the table of prefix scans (hand-written; core Lean only)

`sh` states what is assumed of each field (the hypotheses of the key theorems).
`scanTable` names, for every prefix scan the module performs, the prefix function, the key
function whose records the scan is meant to enumerate, and whether the loop applies the
exact-remainder filter.  `sitesCovered` ties the table to the list of
`sdk.KVStorePrefixIterator` calls the translator found in `keeper/*.go`
(`Generated.scanSites`): a scan that appears, disappears, changes its prefix function or
loses its filter makes `sitesCovered` false and the property theorems fail to check.
-/
namespace SM.Keys
open Generated

/-- The hypotheses on the fields.
* service names match `^[a-zA-Z][a-zA-Z0-9_-]*$` (types/msgs.go `reServiceName`, ≤ 70 bytes): no `0x00`;
* denominations match `[a-zA-Z][a-zA-Z0-9/]{2,127}`: no `0x00`;
* owners and consumers sign messages, so they are account addresses of 20 bytes (assumption E1);
* request-context ids are 40 bytes, request ids 58 bytes, transaction hashes 32 bytes;
* providers are NOT signers of `MsgBindService`: any length. -/
def sh (f : Nat) : Shape :=
  if f = F.serviceName ∨ f = F.denom then .zfree
  else if f = F.owner ∨ f = F.consumer then .fixed 20
  else if f = F.requestContextID ∨ f = F.contextID then .fixed 40
  else if f = F.requestID then .fixed 58
  else if f = F.txHash then .fixed 32
  else .any

/-- the same without E1: owners and consumers of any length (for the negative results) -/
def shNoE1 (f : Nat) : Shape :=
  if f = F.owner ∨ f = F.consumer then .any else sh f

/-- `sh` strengthened: providers of 20 bytes too -/
def shProv20 (f : Nat) : Shape :=
  if f = F.provider then .fixed 20 else sh f

inductive ScanKind
  /-- the prefix is an initial part of the key layout; the subject is the fields of the prefix -/
  | fields
  /-- the prefix is `p ‖ context id ‖ batch counter`, the key is `p ‖ request id` -/
  | byCtx
deriving DecidableEq, Repr

structure Scan where
  sub : List Seg
  key : List Seg
  filtered : Bool := false
  kind : ScanKind := .fields
deriving DecidableEq, Repr

/-- every prefix scan the module performs (found by reading keeper/*.go; cross-checked against
    `Generated.scanSites` by `sitesCovered`) -/
def scanTable : List Scan := [
  -- keeper/binding.go
  { sub := GetOwnerBindingsSubspace, key := GetOwnerServiceBindingKey },   -- bindings of an owner for a service
  { sub := GetOwnerProvidersSubspace, key := GetOwnerProviderKey },        -- providers of an owner
  { sub := WithdrawAddrKey, key := GetWithdrawAddrKey },                   -- all withdraw addresses
  { sub := GetBindingsSubspace, key := GetServiceBindingKey },             -- bindings of a service
  { sub := ServiceBindingKey, key := GetServiceBindingKey },               -- all bindings
  -- keeper/definition.go
  { sub := ServiceDefinitionKey, key := GetServiceDefinitionKey },         -- all definitions
  -- keeper/fees.go
  { sub := GetEarnedFeesSubspace, key := GetEarnedFeesKey, filtered := true },  -- earnings of a provider
  { sub := GetOwnerEarnedFeesSubspace, key := GetOwnerEarnedFeesKey },     -- earnings of an owner
  { sub := EarnedFeesKey, key := GetEarnedFeesKey },                       -- all earnings
  -- keeper/invocation.go
  { sub := RequestContextKey, key := GetRequestContextKey },               -- all contexts
  { sub := RequestKey, key := GetRequestKey },                             -- all requests
  { sub := GetRequestSubspaceByReqCtx, key := GetRequestKey, kind := .byCtx },         -- requests of a batch
  { sub := GetExpiredRequestBatchSubspace, key := GetExpiredRequestBatchKey },         -- expiry queue at a height
  { sub := GetNewRequestBatchSubspace, key := GetNewRequestBatchKey },                 -- new-batch queue at a height
  { sub := GetActiveRequestSubspace, key := GetActiveRequestKey },                     -- active requests of a binding
  { sub := GetActiveRequestSubspaceByReqCtx, key := GetActiveRequestKeyByID, kind := .byCtx },  -- active markers of a batch
  { sub := ActiveRequestKey, key := GetActiveRequestKey },                 -- all active requests
  { sub := ResponseKey, key := GetResponseKey },                           -- all responses
  { sub := GetResponseSubspaceByReqCtx, key := GetResponseKey, kind := .byCtx }        -- responses of a batch
]

theorem WFEnv_setName {e : Env} (w : WFEnv sh e) (v : Bytes) (hv : (0 : UInt8) ∉ v) : WFEnv sh (e.setB F.serviceName v) :=
  WFEnv_setB w F.serviceName v hv
theorem WFEnv_setDenom {e : Env} (w : WFEnv sh e) (v : Bytes) (hv : (0 : UInt8) ∉ v) : WFEnv sh (e.setB F.denom v) :=
  WFEnv_setB w F.denom v hv
theorem WFEnv_setProvider {e : Env} (w : WFEnv sh e) (v : Bytes) : WFEnv sh (e.setB F.provider v) :=
  WFEnv_setB w F.provider v trivial

/-- shape of a by-context scan -/
def byCtxOK (sub key : List Seg) : Bool :=
  match sub, key with
  | [.lit p, .raw c, .be 8 b], [.lit q, .raw r] =>
    p == q && c == F.requestContextID && b == F.batchCounter && r == F.requestID
  | _, _ => false

/-- the Boolean check of one scan under field shapes `s` -/
def Scan.ok (s : Nat → Shape) (x : Scan) : Bool :=
  match x.kind with
  | .fields => if x.filtered then scanFilteredOK s x.sub x.key else scanOK s x.sub x.key
  | .byCtx => !x.filtered && byCtxOK x.sub x.key

/-- every scan site of the Go code is an entry of the table (same prefix layout, same filter),
    every entry of the table is a scan site, and every entry's key is a key builder -/
def sitesCovered : Bool :=
  scanSites.all (fun site => scanTable.any (fun x => x.sub == site.sub && x.filtered == site.filtered)) &&
  scanTable.all (fun x => scanSites.any (fun site => x.sub == site.sub && x.filtered == site.filtered)) &&
  scanTable.all (fun x => keyBuilders.any (fun k => k.layout == x.key))

/-- the filter of the filtered scans compares the remainder with the denomination of the stored coin -/
def filterIsDenom : Bool :=
  scanTable.all (fun x => !x.filtered || x.key.drop x.sub.length == [.raw F.denom])

/-- all layouts start with pairwise distinct literal bytes -/
def distinctHeads : List (List Seg) → Bool
  | [] => true
  | l :: r =>
    (match headLit l with
     | some b => r.all (fun l' => match headLit l' with
        | some b' => b != b'
        | none => false)
     | none => false) && distinctHeads r

/-- heads of two layouts are literal and differ -/
def headsDiffer (l₁ l₂ : List Seg) : Bool :=
  match headLit l₁, headLit l₂ with
  | some a, some b => a != b
  | _, _ => false

/-- a scan's prefix can only match keys of its own builder -/
def noForeign : Bool :=
  scanTable.all (fun x => keyBuilders.all (fun k => k.layout == x.key || headsDiffer x.sub k.layout))

/-- the meaning of "the scan returns exactly the records of its subject" -/
def Scan.Exact (bech : Bytes → Bytes) (s : Nat → Shape) (x : Scan) : Prop :=
  match x.kind with
  | .fields =>
    if x.filtered then
      ∀ e₁ e₂, WFEnv s e₁ → WFEnv s e₂ →
        ((encode bech x.sub e₁ <+: encode bech x.key e₂ ∧
          (encode bech x.key e₂).drop (encode bech x.sub e₁).length = encode bech (x.key.drop x.sub.length) e₂)
          ↔ FieldsEq x.sub e₁ e₂)
    else
      ∀ e₁ e₂, WFEnv s e₁ → WFEnv s e₂ →
        (encode bech x.sub e₁ <+: encode bech x.key e₂ ↔ FieldsEq x.sub e₁ e₂)
  | .byCtx =>
    ∀ e₁ e₂, WFEnv s e₁ → WFEnv s e₂ →
      (encode bech x.sub e₁ <+: encode bech x.key e₂ ↔
        ∃ height index, splitReqId (e₂.b F.requestID) =
          some (e₁.b F.requestContextID, e₁.n F.batchCounter % 2 ^ 64, height, index))

/-! ## soundness of the by-context check -/

theorem byCtx_exact (p : UInt8) (ctx rid : Bytes) (batch : Nat) (hc : ctx.length = 40) (hr : rid.length = 58) :
    p :: (ctx ++ (beN 8 batch ++ [])) <+: p :: (rid ++ []) ↔
      ∃ height index, splitReqId rid = some (ctx, batch % 2 ^ 64, height, index) := by
  simp only [List.append_nil]
  constructor
  · rintro ⟨t, ht⟩
    simp only [List.cons_append, List.cons.injEq, true_and, List.append_assoc] at ht
    subst ht
    have hl : (beN 8 batch).length = 8 := beN_length _ _
    have hs : splitReqId (ctx ++ (beN 8 batch ++ t)) = some (ctx, batch % 2 ^ 64,
        toSigned 8 (fromBE (sliceOf 48 56 (ctx ++ (beN 8 batch ++ t)))),
        toSigned 2 (fromBE (sliceOf 56 58 (ctx ++ (beN 8 batch ++ t))))) := by
      unfold splitReqId
      rw [if_pos hr, slice_left _ _ 40 hc, slice_mid _ _ _ 40 48 hc (by omega), fromBE_beN, pow8]
    exact ⟨_, _, hs⟩
  · rintro ⟨h, i, hs⟩
    have := (gen_split_req rid ctx _ h i hs).1
    rw [← this]
    unfold genReqId
    have hb : beN 8 (batch % 2 ^ 64) = beN 8 batch := beN_congr 8 _ _ (by rw [pow8]; exact Nat.mod_mod _ _)
    rw [hb]
    refine ⟨beN 8 (u64 h) ++ beN 2 (u16 i), ?_⟩
    simp

theorem Scan.ok_sound {bech : Bytes → Bytes} (hb : BechOK bech) {s : Nat → Shape}
    (h40 : s F.requestContextID = .fixed 40) (h58 : s F.requestID = .fixed 58)
    (x : Scan) (hok : x.ok s = true) : x.Exact bech s := by
  unfold Scan.ok at hok
  unfold Scan.Exact
  split at hok
  · rename_i hk
    split at hok
    · rename_i hf
      rw [if_pos hf]
      intro e₁ e₂ w₁ w₂
      exact scanFilteredOK_sound hb x.sub x.key hok e₁ e₂ w₁ w₂
    · rename_i hf
      rw [if_neg hf]
      intro e₁ e₂ w₁ w₂
      exact scanOK_sound hb x.sub x.key hok e₁ e₂ w₁ w₂
  · rename_i hk
    intro e₁ e₂ w₁ w₂
    simp only [Bool.and_eq_true] at hok
    have hshape := hok.2
    unfold byCtxOK at hshape
    split at hshape
    · rename_i p c b q r hsub hkey
      simp only [Bool.and_eq_true, beq_iff_eq] at hshape
      obtain ⟨⟨⟨rfl, rfl⟩, rfl⟩, rfl⟩ := hshape
      rw [hsub, hkey]
      have hc : (e₁.b F.requestContextID).length = 40 := by
        have := w₁ F.requestContextID; rw [h40] at this; exact this
      have hr : (e₂.b F.requestID).length = 58 := by
        have := w₂ F.requestID; rw [h58] at this; exact this
      simp only [encode, Seg.val, List.cons_append, List.nil_append]
      exact byCtx_exact p _ _ _ hc hr
    · exact absurd hshape (by simp)

/-! ## soundness of the head-byte checks -/

theorem headsDiffer_sound {bech : Bytes → Bytes} {l₁ l₂ : List Seg} (h : headsDiffer l₁ l₂ = true) (e₁ e₂ : Env) :
    ¬ encode bech l₁ e₁ <+: encode bech l₂ e₂ ∧ ¬ encode bech l₂ e₂ <+: encode bech l₁ e₁ := by
  unfold headsDiffer at h
  split at h
  · rename_i a b h₁ h₂
    have hne : a ≠ b := by simpa using h
    exact ⟨heads_disjoint h₁ h₂ hne e₁ e₂, heads_disjoint h₂ h₁ (Ne.symm hne) e₂ e₁⟩
  · exact absurd h (by simp)

theorem distinctHeads_sound {bech : Bytes → Bytes} : ∀ (ls : List (List Seg)), distinctHeads ls = true →
    ls.Pairwise (fun l₁ l₂ => ∀ e₁ e₂, encode bech l₁ e₁ ≠ encode bech l₂ e₂)
  | [], _ => List.Pairwise.nil
  | l :: r, h => by
    simp only [distinctHeads, Bool.and_eq_true] at h
    refine List.Pairwise.cons ?_ (distinctHeads_sound r h.2)
    intro l' hl' e₁ e₂ heq
    have h1 := h.1
    split at h1
    · rename_i b hb
      have h2 := List.all_eq_true.mp h1 l' hl'
      split at h2
      · rename_i b' hb'
        have hne : b ≠ b' := by simpa using h2
        exact heads_disjoint (bech := bech) hb hb' hne e₁ e₂ (heq ▸ List.prefix_refl _)
      · exact absurd h2 (by simp)
    · exact absurd h1 (by simp)

end SM.Keys
