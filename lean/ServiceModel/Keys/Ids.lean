import ServiceModel.Keys.Proofs
import ServiceModel.Keys.Generated
import ServiceModel.Keys.IdDefs
/-!
# Request-context ids and request ids at byte level (core Lean only)

`genCtxId`, `splitCtxId`, `genReqId`, `splitReqId` are `types/invocation.go`
`GenerateRequestContextID`, `SplitRequestContextID`, `GenerateRequestID`, `SplitRequestID`
written by hand, including the Go integer conversions (`uint64(int64)`, `int64(uint64)`,
`uint16(int16)`, `int16(uint16)` are two's complement).  `*_matches_generated` tie them to
the layouts the translator extracted from the Go source, so that a change of the Go
functions breaks these lemmas.  The definitions are in `Keys/IdDefs.lean` (so that the
executable `driver ids`, which answers from them and is compared with the real functions by the
differential test, still builds when a lemma of this file fails).
-/
namespace SM.Keys
open Generated

/-! ## the tie to the translated Go source -/

/-- what a `Split…` function returns: a byte string or an integer -/
inductive Val where
  | b (x : Bytes)
  | i (x : Int)
deriving DecidableEq, Repr

def Part.eval (id : Bytes) : Part → Val
  | .bytes a b => .b (sliceOf a b id)
  | .uint a b => .i (fromBE (sliceOf a b id))
  | .sint a b => .i (toSigned (b - a) (fromBE (sliceOf a b id)))

/-- meaning of a translated `Split…` function -/
def splitBy (s : SplitSpec) (id : Bytes) : Option (List Val) :=
  if id.length = s.len then some (s.parts.map (Part.eval id)) else none

theorem genCtxId_matches_generated (bech : Bytes → Bytes) (e : Env) (hash : Bytes) (idx : Int) :
    encode bech GenerateRequestContextID ((e.setB F.txHash hash).setN F.msgIndex (u64 idx)) = genCtxId hash idx := by
  simp [GenerateRequestContextID, encode, Seg.val, Env.setB, Env.setN, genCtxId, F.txHash, F.msgIndex]

theorem genReqId_matches_generated (bech : Bytes → Bytes) (e : Env) (ctx : Bytes) (batch : Nat) (height index : Int) :
    encode bech GenerateRequestID
      ((((e.setB F.requestContextID ctx).setN F.requestContextBatchCounter batch).setN F.requestHeight (u64 height)).setN
        F.batchRequestIndex (u16 index)) = genReqId ctx batch height index := by
  simp [GenerateRequestID, encode, Seg.val, Env.setB, Env.setN, genReqId, F.requestContextID,
    F.requestContextBatchCounter, F.requestHeight, F.batchRequestIndex]

theorem splitCtxId_matches_generated (id : Bytes) :
    splitBy SplitRequestContextID id = (splitCtxId id).map (fun r => [.b r.1, .i r.2]) := by
  unfold splitBy splitCtxId
  by_cases h : id.length = 40 <;> simp [h, SplitRequestContextID, ContextIDLen, Part.eval]

theorem splitReqId_matches_generated (id : Bytes) :
    splitBy SplitRequestID id = (splitReqId id).map (fun r => [.b r.1, .i r.2.1, .i r.2.2.1, .i r.2.2.2]) := by
  unfold splitBy splitReqId
  by_cases h : id.length = 58 <;> simp [h, SplitRequestID, RequestIDLen, Part.eval]

/-! ## more big-endian arithmetic -/

theorem pow8 : (256 : Nat) ^ 8 = 2 ^ 64 := by decide
theorem pow2 : (256 : Nat) ^ 2 = 2 ^ 16 := by decide

theorem foldl_acc (l : Bytes) : ∀ (a : Nat),
    l.foldl (fun a b => a * 256 + b.toNat) a = a * 256 ^ l.length + l.foldl (fun a b => a * 256 + b.toNat) 0 := by
  induction l with
  | nil => intro a; simp
  | cons b l ih =>
    intro a
    simp only [List.foldl_cons, List.length_cons, Nat.pow_succ]
    rw [ih (a * 256 + b.toNat), ih (0 * 256 + b.toNat), Nat.add_mul, Nat.add_mul, Nat.mul_assoc,
      Nat.mul_comm 256 (256 ^ l.length)]
    omega

theorem fromBE_append (x y : Bytes) : fromBE (x ++ y) = fromBE x * 256 ^ y.length + fromBE y := by
  unfold fromBE
  rw [List.foldl_append, foldl_acc]

theorem fromBE_cons (a : UInt8) (l : Bytes) : fromBE (a :: l) = a.toNat * 256 ^ l.length + fromBE l := by
  have := fromBE_append [a] l
  simpa [fromBE] using this

theorem fromBE_lt (l : Bytes) : fromBE l < 256 ^ l.length := by
  induction l with
  | nil => simp [fromBE]
  | cons a l ih =>
    rw [fromBE_cons]
    simp only [List.length_cons, Nat.pow_succ]
    have ha := a.toNat_lt
    have : (a.toNat + 1) * 256 ^ l.length ≤ 256 * 256 ^ l.length := Nat.mul_le_mul_right _ (by omega)
    rw [Nat.add_mul] at this
    rw [Nat.mul_comm (256 ^ l.length) 256]
    omega

theorem beN_fromBE : ∀ (n : Nat) (l : Bytes), l.length = n → beN n (fromBE l) = l
  | 0, l, h => by
    have : l = [] := List.eq_nil_of_length_eq_zero h
    subst this; rfl
  | k+1, l, h => by
    rcases List.eq_nil_or_concat l with rfl | ⟨l', b, rfl⟩
    · simp at h
    · simp only [List.concat_eq_append] at h ⊢
      have hl : l'.length = k := by simpa using h
      rw [fromBE_snoc, beN]
      have hb := b.toNat_lt
      have h1 : (fromBE l' * 256 + b.toNat) / 256 = fromBE l' := by omega
      have h2 : (fromBE l' * 256 + b.toNat) % 256 = b.toNat := by omega
      rw [h1, h2, beN_fromBE k l' hl, UInt8.ofNat_toNat]

/-! ## slices of concatenations -/

theorem slice_left (x y : Bytes) (a : Nat) (h : x.length = a) : sliceOf 0 a (x ++ y) = x := by
  simp [sliceOf, ← h]

theorem slice_mid (x y z : Bytes) (a b : Nat) (h1 : x.length = a) (h2 : a + y.length = b) :
    sliceOf a b (x ++ (y ++ z)) = y := by
  subst h1 h2
  unfold sliceOf
  rw [← List.append_assoc, List.take_left' (by simp), List.drop_left]

theorem slice_last (x y : Bytes) (a b : Nat) (h1 : x.length = a) (h2 : a + y.length = b) :
    sliceOf a b (x ++ y) = y := by
  have := slice_mid x y [] a b h1 h2
  simpa using this

/-! ## integer conversions -/

theorem toSigned_u64 (x : Int) (h1 : -2 ^ 63 ≤ x) (h2 : x < 2 ^ 63) : toSigned 8 (u64 x) = x := by
  unfold toSigned u64
  split <;> omega

theorem toSigned_u16 (x : Int) (h1 : -2 ^ 15 ≤ x) (h2 : x < 2 ^ 15) : toSigned 2 (u16 x) = x := by
  unfold toSigned u16
  split <;> omega

theorem u64_lt (x : Int) : u64 x < 2 ^ 64 := by unfold u64; omega
theorem u16_lt (x : Int) : u16 x < 2 ^ 16 := by unfold u16; omega

theorem u64_toSigned (n : Nat) (h : n < 2 ^ 64) : u64 (toSigned 8 n) = n := by
  unfold toSigned u64
  split <;> omega

theorem u16_toSigned (n : Nat) (h : n < 2 ^ 16) : u16 (toSigned 2 n) = n := by
  unfold toSigned u16
  split <;> omega

theorem toSigned8_range (n : Nat) (h : n < 2 ^ 64) : -2 ^ 63 ≤ toSigned 8 n ∧ toSigned 8 n < 2 ^ 63 := by
  unfold toSigned
  split <;> omega

theorem toSigned2_range (n : Nat) (h : n < 2 ^ 16) : -2 ^ 15 ≤ toSigned 2 n ∧ toSigned 2 n < 2 ^ 15 := by
  unfold toSigned
  split <;> omega

/-- `uint64(·)` is injective on int64 -/
theorem u64_inj (x y : Int) (hx1 : -2 ^ 63 ≤ x) (hx2 : x < 2 ^ 63) (hy1 : -2 ^ 63 ≤ y) (hy2 : y < 2 ^ 63)
    (h : u64 x = u64 y) : x = y := by
  rw [← toSigned_u64 x hx1 hx2, ← toSigned_u64 y hy1 hy2, h]

/-! ## request-context ids -/

theorem genCtxId_length (hash : Bytes) (idx : Int) (h : hash.length = 32) : (genCtxId hash idx).length = 40 := by
  simp [genCtxId, beN_length, h]

theorem split_gen_ctx (hash : Bytes) (idx : Int) (h : hash.length = 32) (h1 : -2 ^ 63 ≤ idx) (h2 : idx < 2 ^ 63) :
    splitCtxId (genCtxId hash idx) = some (hash, idx) := by
  unfold splitCtxId
  rw [if_pos (genCtxId_length hash idx h)]
  unfold genCtxId
  rw [slice_left _ _ 32 h, slice_last _ _ 32 40 h (by simp [beN_length]), fromBE_beN, pow8,
    Nat.mod_eq_of_lt (u64_lt idx), toSigned_u64 idx h1 h2]

theorem gen_split_ctx (id hash : Bytes) (idx : Int) (h : splitCtxId id = some (hash, idx)) :
    genCtxId hash idx = id ∧ hash.length = 32 ∧ -2 ^ 63 ≤ idx ∧ idx < 2 ^ 63 := by
  unfold splitCtxId at h
  split at h
  · rename_i hl
    simp only [Option.some.injEq, Prod.mk.injEq] at h
    obtain ⟨rfl, rfl⟩ := h
    have hs : (sliceOf 32 40 id).length = 8 := by simp [sliceOf, hl]
    have hlt : fromBE (sliceOf 32 40 id) < 2 ^ 64 := by
      have := fromBE_lt (sliceOf 32 40 id); rw [hs, pow8] at this; exact this
    refine ⟨?_, by simp [sliceOf, hl], toSigned8_range _ hlt⟩
    unfold genCtxId
    rw [u64_toSigned _ hlt, beN_fromBE 8 _ hs]
    have : List.take 40 id = id := List.take_of_length_le (by omega)
    simp only [sliceOf, List.drop_zero, this]
    exact List.take_append_drop 32 id
  · exact absurd h (by simp)

theorem genCtxId_inj (h₁ h₂ : Bytes) (i₁ i₂ : Int) (l₁ : h₁.length = 32) (l₂ : h₂.length = 32)
    (a₁ : -2 ^ 63 ≤ i₁) (b₁ : i₁ < 2 ^ 63) (a₂ : -2 ^ 63 ≤ i₂) (b₂ : i₂ < 2 ^ 63)
    (h : genCtxId h₁ i₁ = genCtxId h₂ i₂) : h₁ = h₂ ∧ i₁ = i₂ := by
  have s1 := split_gen_ctx h₁ i₁ l₁ a₁ b₁
  have s2 := split_gen_ctx h₂ i₂ l₂ a₂ b₂
  rw [h, s2] at s1
  simp only [Option.some.injEq, Prod.mk.injEq] at s1
  exact ⟨s1.1.symm, s1.2.symm⟩

/-! ## request ids -/

theorem genReqId_length (ctx : Bytes) (batch : Nat) (height index : Int) (h : ctx.length = 40) :
    (genReqId ctx batch height index).length = 58 := by
  simp [genReqId, beN_length, h]

theorem slices4 (c b h i : Bytes) (hc : c.length = 40) (hb : b.length = 8) (hh : h.length = 8) (hi : i.length = 2) :
    sliceOf 0 40 (c ++ (b ++ (h ++ i))) = c ∧ sliceOf 40 48 (c ++ (b ++ (h ++ i))) = b ∧
    sliceOf 48 56 (c ++ (b ++ (h ++ i))) = h ∧ sliceOf 56 58 (c ++ (b ++ (h ++ i))) = i := by
  refine ⟨slice_left _ _ 40 hc, slice_mid _ _ _ 40 48 hc (by omega), ?_, ?_⟩
  · have e : c ++ (b ++ (h ++ i)) = (c ++ b) ++ (h ++ i) := by simp
    rw [e]
    exact slice_mid _ _ _ 48 56 (by simp [hc, hb]) (by omega)
  · have e : c ++ (b ++ (h ++ i)) = (c ++ (b ++ h)) ++ i := by simp
    rw [e]
    exact slice_last _ _ 56 58 (by simp [hc, hb, hh]) (by omega)

theorem split_gen_req (ctx : Bytes) (batch : Nat) (height index : Int) (h : ctx.length = 40)
    (hb : batch < 2 ^ 64) (h1 : -2 ^ 63 ≤ height) (h2 : height < 2 ^ 63)
    (i1 : -2 ^ 15 ≤ index) (i2 : index < 2 ^ 15) :
    splitReqId (genReqId ctx batch height index) = some (ctx, batch, height, index) := by
  unfold splitReqId
  rw [if_pos (genReqId_length ctx batch height index h)]
  unfold genReqId
  obtain ⟨s1, s2, s3, s4⟩ := slices4 ctx (beN 8 batch) (beN 8 (u64 height)) (beN 2 (u16 index)) h
    (beN_length _ _) (beN_length _ _) (beN_length _ _)
  rw [s1, s2, s3, s4, fromBE_beN, fromBE_beN, fromBE_beN, pow8, pow2, Nat.mod_eq_of_lt hb,
    Nat.mod_eq_of_lt (u64_lt height), Nat.mod_eq_of_lt (u16_lt index), toSigned_u64 height h1 h2,
    toSigned_u16 index i1 i2]

theorem genReqId_inj (c₁ c₂ : Bytes) (b₁ b₂ : Nat) (h₁ h₂ i₁ i₂ : Int)
    (lc₁ : c₁.length = 40) (lc₂ : c₂.length = 40) (lb₁ : b₁ < 2 ^ 64) (lb₂ : b₂ < 2 ^ 64)
    (ha₁ : -2 ^ 63 ≤ h₁) (hb₁ : h₁ < 2 ^ 63) (ha₂ : -2 ^ 63 ≤ h₂) (hb₂ : h₂ < 2 ^ 63)
    (ia₁ : -2 ^ 15 ≤ i₁) (ib₁ : i₁ < 2 ^ 15) (ia₂ : -2 ^ 15 ≤ i₂) (ib₂ : i₂ < 2 ^ 15)
    (h : genReqId c₁ b₁ h₁ i₁ = genReqId c₂ b₂ h₂ i₂) : c₁ = c₂ ∧ b₁ = b₂ ∧ h₁ = h₂ ∧ i₁ = i₂ := by
  have s1 := split_gen_req c₁ b₁ h₁ i₁ lc₁ lb₁ ha₁ hb₁ ia₁ ib₁
  have s2 := split_gen_req c₂ b₂ h₂ i₂ lc₂ lb₂ ha₂ hb₂ ia₂ ib₂
  rw [h, s2] at s1
  simp only [Option.some.injEq, Prod.mk.injEq] at s1
  exact ⟨s1.1.symm, s1.2.1.symm, s1.2.2.1.symm, s1.2.2.2.symm⟩

theorem gen_split_req (id ctx : Bytes) (batch : Nat) (height index : Int)
    (h : splitReqId id = some (ctx, batch, height, index)) :
    genReqId ctx batch height index = id ∧ ctx.length = 40 ∧ batch < 2 ^ 64 ∧
      (-2 ^ 63 ≤ height ∧ height < 2 ^ 63) ∧ (-2 ^ 15 ≤ index ∧ index < 2 ^ 15) := by
  unfold splitReqId at h
  split at h
  · rename_i hl
    simp only [Option.some.injEq, Prod.mk.injEq] at h
    obtain ⟨rfl, rfl, rfl, rfl⟩ := h
    have hs1 : (sliceOf 40 48 id).length = 8 := by simp [sliceOf, hl]
    have hs2 : (sliceOf 48 56 id).length = 8 := by simp [sliceOf, hl]
    have hs3 : (sliceOf 56 58 id).length = 2 := by simp [sliceOf, hl]
    have lt1 : fromBE (sliceOf 40 48 id) < 2 ^ 64 := by
      have := fromBE_lt (sliceOf 40 48 id); rw [hs1, pow8] at this; exact this
    have lt2 : fromBE (sliceOf 48 56 id) < 2 ^ 64 := by
      have := fromBE_lt (sliceOf 48 56 id); rw [hs2, pow8] at this; exact this
    have lt3 : fromBE (sliceOf 56 58 id) < 2 ^ 16 := by
      have := fromBE_lt (sliceOf 56 58 id); rw [hs3, pow2] at this; exact this
    refine ⟨?_, by simp [sliceOf, hl], lt1, toSigned8_range _ lt2, toSigned2_range _ lt3⟩
    unfold genReqId
    rw [u64_toSigned _ lt2, u16_toSigned _ lt3, beN_fromBE 8 _ hs1, beN_fromBE 8 _ hs2, beN_fromBE 2 _ hs3]
    have t58 : List.take 58 id = id := List.take_of_length_le (by omega)
    simp only [sliceOf, List.drop_zero, t58]
    -- id = take 40 ++ [40:48] ++ [48:56] ++ [56:]
    have a1 : List.drop 40 (List.take 48 id) ++ List.drop 48 id = List.drop 40 id := by
      conv => rhs; rw [← List.take_append_drop 48 id]
      rw [List.drop_append_of_le_length (by simp [hl])]
    have a2 : List.drop 48 (List.take 56 id) ++ List.drop 56 id = List.drop 48 id := by
      conv => rhs; rw [← List.take_append_drop 56 id]
      rw [List.drop_append_of_le_length (by simp [hl])]
    rw [a2, a1]
    exact List.take_append_drop 40 id
  · exact absurd h (by simp)

end SM.Keys
