import ServiceModel.Keys.Layout
/-!
# bech32 text of an account address (executable, core Lean only)

`bech32Acc bz` is `sdk.AccAddress(bz).String()` with the account prefix `cosmos` of the SDK
configuration the harness runs with: the empty address is the empty string, any other address
is `bech32.ConvertAndEncode("cosmos", bz)`.  It is used by `driver keys` only; the differential
test compares it with the real function on every line that contains an address rendered as
text.  The theorems do not mention it: they take `BechOK bech` as a hypothesis.
-/
namespace SM.Keys.Bech32

def charset : Array UInt8 := "qpzry9x8gf2tvdw0s3jn54khce6mua7l".toUTF8.data

def gen : List Nat := [0x3b6a57b2, 0x26508e6d, 0x1ea119fa, 0x3d4233dd, 0x2a1462b3]

def polymod (values : List Nat) : Nat :=
  values.foldl (fun chk v =>
    let b := chk >>> 25
    let chk := ((chk &&& 0x1ffffff) <<< 5) ^^^ v
    (List.range 5).foldl (fun c i => if (b >>> i) &&& 1 = 1 then c ^^^ gen[i]! else c) chk) 1

def hrpExpand (hrp : List UInt8) : List Nat :=
  hrp.map (fun c => c.toNat >>> 5) ++ [0] ++ hrp.map (fun c => c.toNat &&& 31)

def checksum (hrp : List UInt8) (data : List Nat) : List Nat :=
  let pm := polymod (hrpExpand hrp ++ data ++ [0, 0, 0, 0, 0, 0]) ^^^ 1
  (List.range 6).map (fun i => (pm >>> (5 * (5 - i))) &&& 31)

/-- regroup 8-bit bytes into 5-bit groups, padding the last group with zero bits -/
def to5 (bz : List UInt8) : List Nat :=
  let (acc, bits, out) := bz.foldl (fun (st : Nat × Nat × List Nat) b =>
    let (acc, bits, out) := st
    let acc := (acc <<< 8) ||| b.toNat
    let bits := bits + 8
    -- emit while bits ≥ 5 (at most twice... up to three times when bits reaches 12)
    let rec emit (fuel acc bits : Nat) (out : List Nat) : Nat × Nat × List Nat :=
      match fuel with
      | 0 => (acc, bits, out)
      | fuel + 1 =>
        if bits ≥ 5 then
          let bits := bits - 5
          emit fuel (acc &&& ((1 <<< bits) - 1)) bits (((acc >>> bits) &&& 31) :: out)
        else (acc, bits, out)
    emit 3 acc bits out) (0, 0, [])
  let out := if bits > 0 then ((acc <<< (5 - bits)) &&& 31) :: out else out
  out.reverse

def hrpCosmos : List UInt8 := "cosmos".toUTF8.data.toList

/-- `sdk.AccAddress(bz).String()` -/
def bech32Acc (bz : List UInt8) : List UInt8 :=
  if bz.isEmpty then []
  else
    let data := to5 bz
    hrpCosmos ++ ((0x31 : UInt8) :: (data ++ checksum hrpCosmos data).map (fun d => charset[d]!))

end SM.Keys.Bech32
