import ServiceModel.Keys.Ids
import ServiceModel.Model.Types
/-!
# The abstract identifiers of the state-machine model and their bytes (core Lean only)

The model (`Model/Types.lean`) carries identifiers as tuples of naturals: `CtxId {hash idx}`,
`ReqId {ctx batch height index}`, and iterates requests in `ReqId.le` order.  This file maps
them to the real bytes and proves, for in-range tuples, that the map is injective, that it
is what `GenerateRequestContextID` / `GenerateRequestID` produce, and that the byte-wise
order of the store (`lexLe`, Go's `bytes.Compare`) is the tuple order of the model.
-/
namespace SM.Keys
open SM

def encCtx (c : CtxId) : Bytes := beN 32 c.hash ++ beN 8 c.idx
def encReq (r : ReqId) : Bytes := encCtx r.ctx ++ (beN 8 r.batch ++ (beN 8 r.height ++ beN 2 r.index))

/-- the tuple is representable: 32-byte hash, non-negative int64 index -/
def CtxId.InRange (c : CtxId) : Prop := c.hash < 2 ^ 256 ∧ c.idx < 2 ^ 63
/-- uint64 batch counter, non-negative int64 height, non-negative int16 index -/
def ReqId.InRange (r : ReqId) : Prop :=
  CtxId.InRange r.ctx ∧ r.batch < 2 ^ 64 ∧ r.height < 2 ^ 63 ∧ r.index < 2 ^ 15

theorem pow32 : (256 : Nat) ^ 32 = 2 ^ 256 := by decide

theorem u64_ofNat (n : Nat) (h : n < 2 ^ 63) : u64 (n : Int) = n := by unfold u64; omega
theorem u16_ofNat (n : Nat) (h : n < 2 ^ 15) : u16 (n : Int) = n := by unfold u16; omega

theorem encCtx_length (c : CtxId) : (encCtx c).length = 40 := by simp [encCtx, beN_length]
theorem encReq_length (r : ReqId) : (encReq r).length = 58 := by simp [encReq, encCtx, beN_length]

/-- the bytes of a model context id are what `GenerateRequestContextID` returns -/
theorem encCtx_eq_gen (c : CtxId) (h : CtxId.InRange c) : encCtx c = genCtxId (beN 32 c.hash) (c.idx : Int) := by
  unfold encCtx genCtxId
  rw [u64_ofNat _ h.2]

/-- the bytes of a model request id are what `GenerateRequestID` returns -/
theorem encReq_eq_gen (r : ReqId) (h : ReqId.InRange r) :
    encReq r = genReqId (encCtx r.ctx) r.batch (r.height : Int) (r.index : Int) := by
  unfold encReq genReqId
  rw [u64_ofNat _ h.2.2.1, u16_ofNat _ h.2.2.2]

/-! ## the number an id denotes -/

def CtxId.num (c : CtxId) : Nat := c.hash * 2 ^ 64 + c.idx
def ReqId.num (r : ReqId) : Nat := ((CtxId.num r.ctx * 2 ^ 64 + r.batch) * 2 ^ 64 + r.height) * 2 ^ 16 + r.index

theorem fromBE_encCtx (c : CtxId) (h : CtxId.InRange c) : fromBE (encCtx c) = CtxId.num c := by
  have h2 : c.idx < 2 ^ 64 := by have := h.2; omega
  unfold encCtx CtxId.num
  rw [fromBE_append, fromBE_beN, fromBE_beN, beN_length, pow8, pow32, Nat.mod_eq_of_lt h.1, Nat.mod_eq_of_lt h2]

theorem fromBE_encReq (r : ReqId) (h : ReqId.InRange r) : fromBE (encReq r) = ReqId.num r := by
  have h2 : r.height < 2 ^ 64 := by have := h.2.2.1; omega
  have h3 : r.index < 2 ^ 16 := by have := h.2.2.2; omega
  unfold encReq ReqId.num
  rw [← List.append_assoc, ← List.append_assoc, fromBE_append, fromBE_append, fromBE_append, fromBE_encCtx _ h.1,
    fromBE_beN, fromBE_beN, fromBE_beN, beN_length, beN_length, beN_length, pow8, pow2,
    Nat.mod_eq_of_lt h.2.1, Nat.mod_eq_of_lt h2, Nat.mod_eq_of_lt h3]

/-! ## byte order is numeric order -/

theorem lexLe_iff : ∀ (x y : Bytes), x.length = y.length → (lexLe x y = true ↔ fromBE x ≤ fromBE y)
  | [], [], _ => by simp [lexLe, fromBE]
  | [], _ :: _, h => by simp at h
  | _ :: _, [], h => by simp at h
  | a :: as, b :: bs, h => by
    have hl : as.length = bs.length := by simpa using h
    have ih := lexLe_iff as bs hl
    have ha := fromBE_lt as
    have hb := fromBE_lt bs
    rw [fromBE_cons, fromBE_cons, hl] at *
    simp only [lexLe, Bool.or_eq_true, Bool.and_eq_true, decide_eq_true_eq, beq_iff_eq]
    rcases Nat.lt_trichotomy a.toNat b.toNat with hlt | heq | hgt
    · have : (a.toNat + 1) * 256 ^ bs.length ≤ b.toNat * 256 ^ bs.length := Nat.mul_le_mul_right _ hlt
      rw [Nat.add_mul] at this
      constructor
      · intro _; omega
      · intro _; exact Or.inl (UInt8.lt_iff_toNat_lt.mpr hlt)
    · have hab : a = b := UInt8.toNat_inj.mp heq
      subst hab
      constructor
      · rintro (h1 | ⟨_, h2⟩)
        · exact absurd (UInt8.lt_iff_toNat_lt.mp h1) (by omega)
        · have := ih.mp h2; omega
      · intro h1
        exact Or.inr ⟨rfl, ih.mpr (by omega)⟩
    · have : (b.toNat + 1) * 256 ^ bs.length ≤ a.toNat * 256 ^ bs.length := Nat.mul_le_mul_right _ hgt
      rw [Nat.add_mul] at this
      constructor
      · rintro (h1 | ⟨h1, _⟩)
        · exact absurd (UInt8.lt_iff_toNat_lt.mp h1) (by omega)
        · subst h1; omega
      · intro _; omega

theorem CtxId.le_iff_num (a b : CtxId) (ha : CtxId.InRange a) (hb : CtxId.InRange b) :
    a.le b = true ↔ CtxId.num a ≤ CtxId.num b := by
  have := ha.2; have := hb.2
  unfold CtxId.le CtxId.num
  simp only [Bool.or_eq_true, Bool.and_eq_true, decide_eq_true_eq, beq_iff_eq]
  omega

theorem CtxId.num_inj (a b : CtxId) (ha : CtxId.InRange a) (hb : CtxId.InRange b) (h : CtxId.num a = CtxId.num b) : a = b := by
  have := ha.2; have := hb.2
  unfold CtxId.num at h
  cases a; cases b
  simp only [CtxId.mk.injEq]
  simp only [] at *
  omega

theorem ReqId.num_inj (a b : ReqId) (ha : ReqId.InRange a) (hb : ReqId.InRange b) (h : ReqId.num a = ReqId.num b) : a = b := by
  obtain ⟨hac, ha1, ha2, ha3⟩ := ha
  obtain ⟨hbc, hb1, hb2, hb3⟩ := hb
  unfold ReqId.num at h
  have hc : CtxId.num a.ctx = CtxId.num b.ctx := by omega
  have hctx := CtxId.num_inj _ _ hac hbc hc
  have h1 : a.batch = b.batch := by omega
  have h2 : a.height = b.height := by omega
  have h3 : a.index = b.index := by omega
  cases a; cases b
  simp only [ReqId.mk.injEq]
  exact ⟨hctx, h1, h2, h3⟩

theorem ReqId.le_iff_num (a b : ReqId) (ha : ReqId.InRange a) (hb : ReqId.InRange b) :
    a.le b = true ↔ ReqId.num a ≤ ReqId.num b := by
  obtain ⟨hac, ha1, ha2, ha3⟩ := ha
  obtain ⟨hbc, hb1, hb2, hb3⟩ := hb
  unfold ReqId.le ReqId.num
  by_cases hc : a.ctx = b.ctx
  · rw [if_neg (by simpa using hc), hc]
    by_cases h1 : a.batch = b.batch
    · rw [if_neg (by simpa using h1)]
      by_cases h2 : a.height = b.height
      · rw [if_neg (by simpa using h2)]
        simp only [decide_eq_true_eq]
        omega
      · rw [if_pos h2]
        simp only [decide_eq_true_eq]
        omega
    · rw [if_pos h1]
      simp only [decide_eq_true_eq]
      omega
  · rw [if_pos hc, CtxId.le_iff_num _ _ hac hbc]
    have hne : CtxId.num a.ctx ≠ CtxId.num b.ctx := fun h => hc (CtxId.num_inj _ _ hac hbc h)
    omega

end SM.Keys
