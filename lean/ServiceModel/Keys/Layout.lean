/-!
# Byte layouts of store keys and identifiers (core Lean only)

A key builder of `types/keys.go` is described by a `List Seg`: the sequence of pieces it
concatenates.  `Keys/Generated.lean` (written by `harness/cmd/factgen` from the Go source
on every run) contains one such list per Go function; this file gives the lists their
meaning (`encode`) and states what the real code guarantees about the pieces
(`Shape`, `WFEnv`, `BechOK`).

Fields are numbered (`Generated.F.*`); one number per Go parameter *name*, so the
`serviceName` of a subspace function and the `serviceName` of the key function it scans are
the same field.
-/
namespace SM.Keys

abbrev Bytes := List UInt8

/-- one piece of a key -/
inductive Seg where
  /-- a constant byte (prefix bytes, the `EmptyByte` separator) -/
  | lit (b : UInt8)
  /-- the bytes of field `f` verbatim: `[]byte(s)`, `addr.Bytes()`, an id passed through -/
  | raw (f : Nat)
  /-- the bech32 text of the address field `f`: `addr.String()` -/
  | bech (f : Nat)
  /-- the integer field `f` as `w` big-endian bytes (`sdk.Uint64ToBigEndian`, `PutUint16`) -/
  | be (w : Nat) (f : Nat)
deriving DecidableEq, Repr

/-- values of the fields: byte-string fields and integer fields (integers are the unsigned
    bit patterns, i.e. already cast with `uint64(·)` / `uint16(·)`) -/
structure Env where
  b : Nat → Bytes
  n : Nat → Nat

/-- `w` big-endian bytes of `n` (of `n % 256^w`) -/
def beN : Nat → Nat → Bytes
  | 0, _ => []
  | k+1, n => beN k (n / 256) ++ [UInt8.ofNat (n % 256)]

/-- the number a big-endian byte string denotes -/
def fromBE (l : Bytes) : Nat := l.foldl (fun a b => a * 256 + b.toNat) 0

/-- the bytes a piece contributes; `bech` is the bech32 rendering of an address -/
def Seg.val (bech : Bytes → Bytes) (e : Env) : Seg → Bytes
  | .lit b => [b]
  | .raw f => e.b f
  | .bech f => bech (e.b f)
  | .be w f => beN w (e.n f)

/-- the key a layout denotes -/
def encode (bech : Bytes → Bytes) : List Seg → Env → Bytes
  | [], _ => []
  | s :: r, e => s.val bech e ++ encode bech r e

/-- what is known about a byte-string field -/
inductive Shape where
  /-- exactly `n` bytes (ids, big-endian integers, signer addresses) -/
  | fixed (n : Nat)
  /-- any length, but no `0x00` byte (service names, denominations, bech32 text) -/
  | zfree
  /-- nothing known (provider addresses: any length) -/
  | any
deriving DecidableEq, Repr

def Shape.ok : Shape → Bytes → Prop
  | .fixed n, x => x.length = n
  | .zfree, x => (0 : UInt8) ∉ x
  | .any, _ => True

instance (s : Shape) (x : Bytes) : Decidable (s.ok x) := by
  cases s <;> simp only [Shape.ok] <;> exact inferInstance

/-- the two facts about `sdk.AccAddress.String()` the key layouts rely on.  This is a
    HYPOTHESIS of the theorems (not an axiom): bech32 is not modelled in the proofs.  The
    executable `Bech32.bech32` used by the differential test is sampled against it. -/
structure BechOK (bech : Bytes → Bytes) : Prop where
  inj : ∀ a b, bech a = bech b → a = b
  zfree : ∀ a, (0 : UInt8) ∉ bech a

/-- shape of a piece, given the shapes `sh` of the byte-string fields -/
def Seg.shape (sh : Nat → Shape) : Seg → Shape
  | .lit _ => .fixed 1
  | .raw f => sh f
  | .bech _ => .zfree
  | .be w _ => .fixed w

/-- well-formed environment: every byte-string field has its declared shape -/
def WFEnv (sh : Nat → Shape) (e : Env) : Prop := ∀ f, (sh f).ok (e.b f)

/-- two environments give every piece of `l` the same bytes -/
def Agree (bech : Bytes → Bytes) (l : List Seg) (e₁ e₂ : Env) : Prop :=
  ∀ s, s ∈ l → s.val bech e₁ = s.val bech e₂

/-- two environments agree on every field `l` mentions: byte-string fields are equal,
    integer fields are equal modulo the width they are written with -/
def FieldsEq (l : List Seg) (e₁ e₂ : Env) : Prop :=
  (∀ f, (Seg.raw f ∈ l ∨ Seg.bech f ∈ l) → e₁.b f = e₂.b f) ∧
  (∀ w f, Seg.be w f ∈ l → e₁.n f % 256 ^ w = e₂.n f % 256 ^ w)

/-! ## The decision procedure over layouts -/

/-- may piece `s` be followed by `r` without losing the boundary between them?
    fixed-width pieces always; NUL-free pieces when a literal `0x00` follows; others never -/
def headOK (sh : Nat → Shape) (s : Seg) (r : List Seg) : Bool :=
  match s.shape sh with
  | .fixed _ => true
  | .zfree => match r with
    | .lit b :: _ => b == 0
    | _ => false
  | .any => false

/-- every piece boundary is recoverable even when arbitrary bytes follow the layout:
    the layout can serve as a scan prefix -/
def strict (sh : Nat → Shape) : List Seg → Bool
  | [] => true
  | s :: r => headOK sh s r && strict sh r

/-- every piece boundary is recoverable when nothing follows: the last piece may be
    of any shape (it takes the rest) -/
def decodable (sh : Nat → Shape) : List Seg → Bool
  | [] => true
  | [_] => true
  | s :: r => headOK sh s r && decodable sh r

/-- first byte of a layout when it is a literal -/
def headLit : List Seg → Option UInt8
  | .lit b :: _ => some b
  | _ => none

/-- unfiltered prefix scan `sub` over records keyed by `key` is exact -/
def scanOK (sh : Nat → Shape) (sub key : List Seg) : Bool :=
  key.take sub.length == sub && strict sh sub

/-- prefix scan with the exact-remainder filter (`key[len(prefix):] == <rest of the record's key>`) -/
def scanFilteredOK (sh : Nat → Shape) (sub key : List Seg) : Bool :=
  key.take sub.length == sub && decodable sh sub

/-! ## Building environments -/

def Shape.default : Shape → Bytes
  | .fixed n => List.replicate n 1
  | .zfree => []
  | .any => []

/-- an environment in which every field has a value of its shape -/
def Env.default (sh : Nat → Shape) : Env := { b := fun f => (sh f).default, n := fun _ => 0 }

def Env.setB (e : Env) (f : Nat) (v : Bytes) : Env := { e with b := fun g => if g = f then v else e.b g }
def Env.setN (e : Env) (f : Nat) (v : Nat) : Env := { e with n := fun g => if g = f then v else e.n g }

/-! ## Records the translator emits -/

/-- Go type of a field -/
inductive GoTy | str | addr | bytes | i64 | u64 | i16
deriving DecidableEq, Repr

/-- one translated Go function: its parameters in order (as fields), the parameters its
    result does not depend on, and its byte layout -/
structure Fn where
  name : String
  params : List Nat
  ignored : List Nat
  layout : List Seg
deriving Repr

/-- a slice `[a:b]` of an identifier that a `Split…` function returns: the bytes, the
    big-endian unsigned number, or that number cast to the signed type of the same width -/
inductive Part where
  | bytes (a b : Nat)
  | uint (a b : Nat)
  | sint (a b : Nat)
deriving DecidableEq, Repr

/-- a `Split…ID` function: the length it insists on and the parts it returns in order -/
structure SplitSpec where
  len : Nat
  parts : List Part
deriving DecidableEq, Repr

/-- one `sdk.KVStorePrefixIterator(store, prefix)` call of the keeper: where, the layout of
    the prefix, and whether the loop keeps only records whose key remainder equals the denom
    of the stored coin -/
structure ScanSite where
  site : String
  subName : String
  sub : List Seg
  filtered : Bool
deriving Repr

/-- Go's byte-wise order of keys (`bytes.Compare a b ≤ 0`), the iteration order of the store -/
def lexLe : Bytes → Bytes → Bool
  | [], _ => true
  | _ :: _, [] => false
  | a :: as, b :: bs => a < b || (a == b && lexLe as bs)

end SM.Keys
