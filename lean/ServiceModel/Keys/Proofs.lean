import ServiceModel.Keys.Layout
/-!
# Soundness of the layout decision procedure (core Lean only)

`strict_sound`, `decodable_sound`: when the Boolean check accepts a layout, equal encodings
force equal pieces.  `scanOK_sound`, `scanFilteredOK_sound`: exactness of prefix scans.
Also the arithmetic of big-endian numbers (`beN`, `fromBE`, `lexLe`).
-/
namespace SM.Keys

/-! ## lists -/

/-- the separator lemma: NUL-free `x₁ x₂`, each followed by a `0x00`, are delimited by it -/
theorem sep_inj : ∀ (x₁ x₂ y₁ y₂ : Bytes), (0 : UInt8) ∉ x₁ → (0 : UInt8) ∉ x₂ →
    x₁ ++ 0 :: y₁ = x₂ ++ 0 :: y₂ → x₁ = x₂ ∧ y₁ = y₂
  | [], [], _, _, _, _, h => by simpa using h
  | [], c :: x₂, y₁, y₂, _, h2, h => by
      simp only [List.nil_append, List.cons_append, List.cons.injEq] at h
      exact absurd (h.1 ▸ List.mem_cons_self) h2
  | c :: x₁, [], y₁, y₂, h1, _, h => by
      simp only [List.nil_append, List.cons_append, List.cons.injEq] at h
      exact absurd (h.1 ▸ List.mem_cons_self) h1
  | c :: x₁, d :: x₂, y₁, y₂, h1, h2, h => by
      simp only [List.cons_append, List.cons.injEq] at h
      have := sep_inj x₁ x₂ y₁ y₂ (fun m => h1 (List.mem_cons_of_mem _ m))
        (fun m => h2 (List.mem_cons_of_mem _ m)) h.2
      exact ⟨by rw [h.1, this.1], this.2⟩

theorem encode_append (bech : Bytes → Bytes) (l₁ l₂ : List Seg) (e : Env) :
    encode bech (l₁ ++ l₂) e = encode bech l₁ e ++ encode bech l₂ e := by
  induction l₁ with
  | nil => rfl
  | cons s r ih => simp [encode, ih]

theorem encode_congr (bech : Bytes → Bytes) (l : List Seg) (e₁ e₂ : Env)
    (h : Agree bech l e₁ e₂) : encode bech l e₁ = encode bech l e₂ := by
  induction l with
  | nil => rfl
  | cons s r ih =>
    simp only [encode]
    rw [h s List.mem_cons_self, ih (fun t ht => h t (List.mem_cons_of_mem _ ht))]

/-! ## big-endian numbers -/

theorem beN_length : ∀ (w n : Nat), (beN w n).length = w
  | 0, _ => rfl
  | k+1, n => by simp [beN, beN_length k]

theorem fromBE_snoc (l : Bytes) (b : UInt8) : fromBE (l ++ [b]) = fromBE l * 256 + b.toNat := by
  simp [fromBE, List.foldl_append]

theorem fromBE_beN : ∀ (w n : Nat), fromBE (beN w n) = n % 256 ^ w
  | 0, n => by simp [beN, fromBE, Nat.mod_one]
  | k+1, n => by
    rw [beN, fromBE_snoc, fromBE_beN k]
    have h1 : (UInt8.ofNat (n % 256)).toNat = n % 256 := by
      simp [UInt8.toNat_ofNat']
    rw [h1, Nat.pow_succ, Nat.mul_comm (256 ^ k) 256, Nat.mod_mul]
    omega

theorem beN_inj (w a b : Nat) (h : beN w a = beN w b) : a % 256 ^ w = b % 256 ^ w := by
  rw [← fromBE_beN, ← fromBE_beN, h]

theorem beN_congr : ∀ (w a b : Nat), a % 256 ^ w = b % 256 ^ w → beN w a = beN w b
  | 0, _, _, _ => rfl
  | k+1, a, b, h => by
    rw [Nat.pow_succ, Nat.mul_comm (256 ^ k) 256, Nat.mod_mul, Nat.mod_mul] at h
    have h256 : a % 256 = b % 256 := by
      have := congrArg (· % 256) h
      simp only [Nat.add_mul_mod_self_left, Nat.mod_mod] at this
      exact this
    have hk : a / 256 % 256 ^ k = b / 256 % 256 ^ k := by
      rw [h256] at h
      have := Nat.add_left_cancel h
      exact Nat.eq_of_mul_eq_mul_left (by decide) this
    simp only [beN]
    rw [beN_congr k _ _ hk, h256]

/-! ## pieces have their shapes -/

theorem val_shape {bech : Bytes → Bytes} (hb : BechOK bech) {sh : Nat → Shape} {e : Env}
    (wf : WFEnv sh e) (s : Seg) : (s.shape sh).ok (s.val bech e) := by
  cases s with
  | lit b => simp [Seg.shape, Seg.val, Shape.ok]
  | raw f => exact wf f
  | bech f => exact hb.zfree _
  | be w f => simp [Seg.shape, Seg.val, Shape.ok, beN_length]

/-- one step of decoding: when `headOK` holds, the first piece can be split off -/
theorem head_split {bech : Bytes → Bytes} (hb : BechOK bech) {sh : Nat → Shape} {e₁ e₂ : Env}
    (wf₁ : WFEnv sh e₁) (wf₂ : WFEnv sh e₂) (s : Seg) (r : List Seg) (t₁ t₂ : Bytes)
    (hok : headOK sh s r = true)
    (h : s.val bech e₁ ++ (encode bech r e₁ ++ t₁) = s.val bech e₂ ++ (encode bech r e₂ ++ t₂)) :
    s.val bech e₁ = s.val bech e₂ ∧ encode bech r e₁ ++ t₁ = encode bech r e₂ ++ t₂ := by
  have s1 := val_shape hb wf₁ s
  have s2 := val_shape hb wf₂ s
  unfold headOK at hok
  split at hok
  · rename_i n hs
    rw [hs] at s1 s2
    exact List.append_inj h (by rw [show (s.val bech e₁).length = n from s1, show (s.val bech e₂).length = n from s2])
  · rename_i hs
    rw [hs] at s1 s2
    split at hok
    · rename_i b r'
      have hb0 : b = 0 := by simpa using hok
      subst hb0
      simp only [encode, Seg.val, List.cons_append, List.nil_append] at h ⊢
      have := sep_inj _ _ _ _ s1 s2 h
      exact ⟨this.1, by rw [this.2]⟩
    · exact absurd hok (by simp)
  · exact absurd hok (by simp)

theorem strict_sound {bech : Bytes → Bytes} (hb : BechOK bech) {sh : Nat → Shape} {e₁ e₂ : Env}
    (wf₁ : WFEnv sh e₁) (wf₂ : WFEnv sh e₂) :
    ∀ (l : List Seg) (t₁ t₂ : Bytes), strict sh l = true →
      encode bech l e₁ ++ t₁ = encode bech l e₂ ++ t₂ → Agree bech l e₁ e₂ ∧ t₁ = t₂
  | [], t₁, t₂, _, h => ⟨fun _ hs => absurd hs (by simp), by simpa [encode] using h⟩
  | s :: r, t₁, t₂, hst, h => by
    simp only [strict, Bool.and_eq_true] at hst
    simp only [encode, List.append_assoc] at h
    have hd := head_split hb wf₁ wf₂ s r t₁ t₂ hst.1 h
    have tl := strict_sound hb wf₁ wf₂ r t₁ t₂ hst.2 hd.2
    refine ⟨?_, tl.2⟩
    intro x hx
    rcases List.mem_cons.mp hx with rfl | hx
    · exact hd.1
    · exact tl.1 x hx

theorem decodable_sound {bech : Bytes → Bytes} (hb : BechOK bech) {sh : Nat → Shape} {e₁ e₂ : Env}
    (wf₁ : WFEnv sh e₁) (wf₂ : WFEnv sh e₂) :
    ∀ (l : List Seg), decodable sh l = true →
      encode bech l e₁ = encode bech l e₂ → Agree bech l e₁ e₂
  | [], _, _ => fun _ hs => absurd hs (by simp)
  | [s], _, h => by
    intro x hx
    simp only [encode, List.append_nil] at h
    rcases List.mem_singleton.mp hx with rfl
    exact h
  | s :: s' :: r, hd, h => by
    simp only [decodable, Bool.and_eq_true] at hd
    simp only [encode] at h
    have h' : s.val bech e₁ ++ (encode bech (s' :: r) e₁ ++ []) = s.val bech e₂ ++ (encode bech (s' :: r) e₂ ++ []) := by
      simpa [encode] using h
    have hs := head_split hb wf₁ wf₂ s (s' :: r) [] [] hd.1 h'
    have tl := decodable_sound hb wf₁ wf₂ (s' :: r) hd.2 (by simpa using hs.2)
    intro x hx
    rcases List.mem_cons.mp hx with rfl | hx
    · exact hs.1
    · exact tl x hx

/-! ## `Agree` and `FieldsEq` -/

theorem agree_iff_fieldsEq {bech : Bytes → Bytes} (hb : BechOK bech) (l : List Seg) (e₁ e₂ : Env) :
    Agree bech l e₁ e₂ ↔ FieldsEq l e₁ e₂ := by
  constructor
  · intro h
    refine ⟨?_, ?_⟩
    · intro f hf
      rcases hf with hf | hf
      · exact h _ hf
      · exact hb.inj _ _ (h _ hf)
    · intro w f hf
      exact beN_inj w _ _ (h _ hf)
  · intro h s hs
    cases s with
    | lit b => rfl
    | raw f => exact h.1 f (Or.inl hs)
    | bech f => simp only [Seg.val]; rw [h.1 f (Or.inr hs)]
    | be w f => exact beN_congr w _ _ (h.2 w f hs)

/-! ## injectivity of key builders, exactness of prefix scans -/

/-- a decodable layout is injective in the fields it mentions -/
theorem key_injective {bech : Bytes → Bytes} (hb : BechOK bech) {sh : Nat → Shape} (l : List Seg)
    (hd : decodable sh l = true) (e₁ e₂ : Env) (wf₁ : WFEnv sh e₁) (wf₂ : WFEnv sh e₂) :
    encode bech l e₁ = encode bech l e₂ ↔ FieldsEq l e₁ e₂ := by
  rw [← agree_iff_fieldsEq hb]
  exact ⟨decodable_sound hb wf₁ wf₂ l hd, encode_congr bech l e₁ e₂⟩

theorem take_eq_split {α} [BEq α] [LawfulBEq α] {sub key : List α} (h : (key.take sub.length == sub) = true) :
    key = sub ++ key.drop sub.length := by
  have := eq_of_beq h
  conv => lhs; rw [← List.take_append_drop sub.length key]
  rw [this]

/-- an accepted prefix scan returns exactly the records whose subject fields are the subject -/
theorem scanOK_sound {bech : Bytes → Bytes} (hb : BechOK bech) {sh : Nat → Shape} (sub key : List Seg)
    (hok : scanOK sh sub key = true) (e₁ e₂ : Env) (wf₁ : WFEnv sh e₁) (wf₂ : WFEnv sh e₂) :
    encode bech sub e₁ <+: encode bech key e₂ ↔ FieldsEq sub e₁ e₂ := by
  simp only [scanOK, Bool.and_eq_true] at hok
  have hk := take_eq_split hok.1
  rw [← agree_iff_fieldsEq hb, hk, encode_append]
  constructor
  · rintro ⟨t, ht⟩
    exact (strict_sound hb wf₁ wf₂ sub t _ hok.2 ht).1
  · intro h
    rw [encode_congr bech sub e₁ e₂ h]
    exact List.prefix_append _ _

/-- an accepted filtered scan (the record is kept only when the remainder of its key after the
    prefix is exactly the rest of its own key) returns exactly the records of the subject -/
theorem scanFilteredOK_sound {bech : Bytes → Bytes} (hb : BechOK bech) {sh : Nat → Shape} (sub key : List Seg)
    (hok : scanFilteredOK sh sub key = true) (e₁ e₂ : Env) (wf₁ : WFEnv sh e₁) (wf₂ : WFEnv sh e₂) :
    (encode bech sub e₁ <+: encode bech key e₂ ∧
      (encode bech key e₂).drop (encode bech sub e₁).length = encode bech (key.drop sub.length) e₂)
      ↔ FieldsEq sub e₁ e₂ := by
  simp only [scanFilteredOK, Bool.and_eq_true] at hok
  have hk := take_eq_split hok.1
  rw [← agree_iff_fieldsEq hb]
  constructor
  · rintro ⟨⟨t, ht⟩, hdrop⟩
    rw [← ht, List.drop_left] at hdrop
    subst hdrop
    rw [hk, encode_append] at ht
    have hk' : (sub ++ List.drop sub.length key).drop sub.length = List.drop sub.length key := List.drop_left
    rw [hk'] at ht
    exact decodable_sound hb wf₁ wf₂ sub hok.2 (List.append_cancel_right ht)
  · intro h
    have he := encode_congr bech sub e₁ e₂ h
    have hsplit : encode bech key e₂ = encode bech sub e₂ ++ encode bech (key.drop sub.length) e₂ := by
      conv => lhs; rw [hk]
      rw [encode_append]
    rw [he, hsplit]
    exact ⟨List.prefix_append _ _, List.drop_left⟩

/-- a layout that starts with a literal byte produces keys that start with that byte -/
theorem encode_head {bech : Bytes → Bytes} {l : List Seg} {b : UInt8} (h : headLit l = some b) (e : Env) :
    ∃ t, encode bech l e = b :: t := by
  cases l with
  | nil => simp [headLit] at h
  | cons s r =>
    cases s <;> simp [headLit] at h
    subst h
    exact ⟨_, rfl⟩

/-- keys of layouts with different first bytes never coincide, and neither is a prefix scan of
    one (a non-empty layout starting with a literal) ever answered by a key of the other -/
theorem heads_disjoint {bech : Bytes → Bytes} {l₁ l₂ : List Seg} {b₁ b₂ : UInt8}
    (h₁ : headLit l₁ = some b₁) (h₂ : headLit l₂ = some b₂) (hne : b₁ ≠ b₂) (e₁ e₂ : Env) :
    ¬ encode bech l₁ e₁ <+: encode bech l₂ e₂ := by
  obtain ⟨t₁, ht₁⟩ := encode_head (bech := bech) h₁ e₁
  obtain ⟨t₂, ht₂⟩ := encode_head (bech := bech) h₂ e₂
  rw [ht₁, ht₂]
  rintro ⟨t, ht⟩
  simp only [List.cons_append, List.cons.injEq] at ht
  exact hne ht.1

/-! ## well-formed environments -/

theorem Shape.default_ok : ∀ s : Shape, s.ok s.default
  | .fixed n => by simp [Shape.ok, Shape.default]
  | .zfree => by simp [Shape.ok, Shape.default]
  | .any => trivial

theorem WFEnv_default (sh : Nat → Shape) : WFEnv sh (Env.default sh) := fun f => Shape.default_ok (sh f)

theorem WFEnv_setB {sh : Nat → Shape} {e : Env} (wf : WFEnv sh e) (f : Nat) (v : Bytes) (hv : (sh f).ok v) :
    WFEnv sh (e.setB f v) := by
  intro g
  simp only [Env.setB]
  split
  · rename_i h; rw [h]; exact hv
  · exact wf g

theorem WFEnv_setN {sh : Nat → Shape} {e : Env} (wf : WFEnv sh e) (f : Nat) (v : Nat) : WFEnv sh (e.setN f v) := wf

end SM.Keys
