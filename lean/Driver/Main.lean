import ServiceModel.Driver.Wire
import ServiceModel.Inv.Monitors
import ServiceModel.Driver.KeysMode
import ServiceModel.Driver.QueryWire
open SM SM.Wire

/-- model mode: read op lines (either bare, or prefixed `OP ` as in a harness trace; all
    other lines are ignored), execute them on the model, print step blocks -/
partial def modelLoop (h : IO.FS.Stream) (out : IO.FS.Stream) (st : Option State) : IO Unit := do
  let line ← h.getLine
  if line.isEmpty then return ()
  let line := String.ofList (line.toList.reverse.dropWhile (fun c => c = '\n' || c = '\r')).reverse
  let isTraceLine (l : String) : Bool :=
    l.startsWith "R " || l.startsWith "E " || l = "END" || l.startsWith "H " || l.startsWith "S " ||
    l.startsWith "A " || l.startsWith "D " || l.startsWith "B " || l.startsWith "OB " || l.startsWith "OW " ||
    l.startsWith "PO " || l.startsWith "PR " || l.startsWith "WD " || l.startsWith "CX " ||
    l.startsWith "XQ " || l.startsWith "NQ " || l.startsWith "XH " || l.startsWith "NH " || l.startsWith "RQ " ||
    l.startsWith "AB " || l.startsWith "AI " || l.startsWith "RS " || l.startsWith "VO " || l.startsWith "EF " ||
    l.startsWith "OE " || l.startsWith "Q " || l.startsWith "G " || l.startsWith "garbage " || l.startsWith "#" || l.toList.all (· = ' ')
  let opLine : Option String :=
    if line.startsWith "OP " then some (String.ofList (line.toList.drop 3))
    else if isTraceLine line then none
    else some line
  match opLine with
  | none => modelLoop h out st
  | some l =>
    if l.startsWith "query " then
      match st, parseQuery (parseLine l).2 with
      | some s, some q => do
        let (r, recs) := runQuery s q
        for ln in ["OP " ++ l, r] ++ recs.map ("Q " ++ ·) ++ sortLines (stateLines s) ++ ["END"] do out.putStrLn ln
        modelLoop h out st
      | _, _ => do
        IO.eprintln s!"cannot parse query line: {l}"
        IO.Process.exit 2
    else if (genOpOf l).isSome then
      match st, genOpOf l with
      | some s, some g => do
        let (s', lines) := runGenOp s g
        for ln in ["OP " ++ l] ++ lines ++ ["END"] do out.putStrLn ln
        if g = .reimport then return () else modelLoop h out (some s')
      | _, _ => do
        IO.eprintln "genesis op before genesis"
        IO.Process.exit 2
    else if l.startsWith "modcall " || l.startsWith "modbind " then
      match st, parseModOp l with
      | some s, some m => do
        let (s', r, effs) := runModOp s m
        let s' := match r with | .ok => s' | _ => s
        for ln in blockLines l r (match r with | .ok => effs | _ => []) s' do out.putStrLn ln
        modelLoop h out (some s')
      | _, _ => do
        IO.eprintln s!"cannot parse module-service op line: {l}"
        IO.Process.exit 2
    else
    match parseOpLine l, st with
    | .bad msg, _ => do
      IO.eprintln msg
      IO.Process.exit 2
    | .genesis cfg params height time, _ => do
      let s := genesis cfg params height time
      for ln in blockLines l .ok [] s do out.putStrLn ln
      modelLoop h out (some s)
    | .invalid, some s => do
      for ln in blockLines l .invalid [] s do out.putStrLn ln
      modelLoop h out (some s)
    | .unknownCtx, some s => do
      for ln in blockLines l (.err .unknownRequestContext) [] s do out.putStrLn ln
      modelLoop h out (some s)
    | .op o, some s => do
      let (s', r, e) := step s o
      for ln in blockLines l r e s' do out.putStrLn ln
      out.flush
      match r, o with
      | .panic _, .endblock _ => return ()
      | _, _ => modelLoop h out (some s')
    | _, none => do
      IO.eprintln "first op must be genesis"
      IO.Process.exit 2

/-- read one step block of a harness trace: (op line, R line, E lines, state lines); `none` at end of input -/
partial def readBlock (h : IO.FS.Stream) : IO (Option (String × String × List String × List String × List String)) := do
  let rec strip (l : String) : String := String.ofList (l.toList.reverse.dropWhile (fun c => c = '\n' || c = '\r')).reverse
  -- find the OP line
  let rec findOp : IO (Option String) := do
    let line ← h.getLine
    if line.isEmpty then return none
    let l := strip line
    if l.startsWith "OP " then return some (String.ofList (l.toList.drop 3)) else findOp
  match ← findOp with
  | none => return none
  | some op =>
    let rec body (r : String) (es ss qs : List String) : IO (String × List String × List String × List String) := do
      let line ← h.getLine
      if line.isEmpty then return (r, es.reverse, ss.reverse, qs.reverse)
      let l := strip line
      if l = "END" then return (r, es.reverse, ss.reverse, qs.reverse)
      else if l.startsWith "R " then body l es ss qs
      else if l.startsWith "E " then body r (l :: es) ss qs
      else if l.startsWith "Q " || l.startsWith "G " then body r es ss (l :: qs)
      else body r es (l :: ss) qs
    let (r, es, ss, qs) ← body "" [] [] []
    return some (op, r, es, ss, qs)

/-- monitor mode: evaluate every monitor on every step of a harness trace.
    Output: `V <step> <monitor> <message>` per violated clause, `P <step> <problem>` for
    dump lines that do not parse, and a final `DONE steps=<n> violations=<k>`. -/
partial def monitorLoop (h : IO.FS.Stream) (out : IO.FS.Stream) : IO Unit := do
  let mut cfgp : Option (Config × Params) := none
  let mut pre : Option State := none
  let mut n : Nat := 0
  let mut viol : Nat := 0
  let mut ghost : Mon.Ghost := []
  repeat
    match ← readBlock h with
    | none => break
    | some (opl, r, es, ss, qs) =>
      n := n + 1
      if opl.startsWith "query " then
        -- a query must answer from the stored state (decoded from the raw store scan of the previous block) and change nothing
        match cfgp, pre, parseQuery (parseLine opl).2 with
        | some (cfg, params), some s0, some q =>
          let (s1, bad) := parseState cfg params ss
          for b in bad do out.putStrLn s!"P {n} unparsable state line: {b}"; viol := viol + 1
          if sortLines (stateLines s0) ≠ sortLines (stateLines s1) then
            out.putStrLn s!"V {n} queryExact a query changed the state"; viol := viol + 1
          let (r', recs) := runQuery s0 q
          if r ≠ r' || qs ≠ recs.map ("Q " ++ ·) then
            let miss := (recs.map ("Q " ++ ·)).filter (fun x => !qs.contains x)
            let extra := qs.filter (fun x => !(recs.map ("Q " ++ ·)).contains x)
            out.putStrLn s!"V {n} queryExact odd-address={queryOdd s0 q} code `{r}` ({qs.length} records) stored-state `{r'}` ({recs.length} records); missing {miss.take 2} extra {extra.take 2}"
            viol := viol + 1
          -- the same listing computed from the primary records alone: a wrong index must show as a wrong answer
          match q with
          | .q qq =>
            match querySpecRecs s0 qq with
            | some spec =>
              if r = "R ok" && qs ≠ spec.map ("Q " ++ ·) then
                let miss := (spec.map ("Q " ++ ·)).filter (fun x => !qs.contains x)
                let extra := qs.filter (fun x => !(spec.map ("Q " ++ ·)).contains x)
                out.putStrLn s!"V {n} queryExact odd-address={queryOdd s0 q} answer differs from the stored primary records (the index it is read from is wrong); missing {miss.take 2} extra {extra.take 2}"
                viol := viol + 1
            | none => pure ()
          | _ => pure ()
          pre := some s1
        | _, _, _ => out.putStrLn s!"P {n} cannot parse query"; viol := viol + 1
      else if (genOpOf opl).isSome then
        -- genesis ops: one model step from the implementation's previous state must give the implementation's block
        match cfgp, pre, genOpOf opl with
        | some (cfg, params), some s0, some g =>
          let (s1, bad) := parseState cfg params ss
          for b in bad do out.putStrLn s!"P {n} unparsable state line: {b}"; viol := viol + 1
          let (_, lines) := runGenOp s0 g
          let want := lines
          let got := [r] ++ sortLines es ++ qs ++ (if g = .reimport then ss else sortLines (stateLines s1))
          -- a panic's text is not compared, only that it is one
          let norm (l : List String) : List String := l.map (fun x => if x.startsWith "R panic" then "R panic" else x)
          if norm got ≠ norm want then
            let miss := want.filter (fun x => !got.contains x)
            let extra := got.filter (fun x => !want.contains x)
            out.putStrLn s!"V {n} genesisLaw {opl}: odd-address={genesisOdd (exportG s0)} code `{r}` model `{want.headD ""}`; only model {miss.take 3} only code {extra.take 3}"
            viol := viol + 1
          -- the preparation and the restart may only reset a context (paused, batch completed, batch counters zero):
          -- no context lost or invented, batch counter and every consumer-set field as before (C09.context_over_restart)
          if (g = .prep || g = .restart) && r = "R ok" then
            for v in Mon.restartCtxs s0 s1 do
              out.putStrLn s!"V {n} restartCtxs {v}"
              viol := viol + 1
          pre := some s1
          -- a restart ends whatever was in flight: the cadence observer forgets the batch it was tracking
          if g = .restart && r = "R ok" then
            -- the restarted chain must satisfy the state invariants and hold the same records
            -- (C19.restart_succeeds_and_keeps_invariants, C19.restart_gives_back_the_same_records)
            for (name, vs) in [("escrowBacked", Mon.escrowBacked s1), ("depositBacked", Mon.depositBacked s1),
                               ("ownerEarnings", Mon.ownerEarnings s1), ("minDep", Mon.minDep s1), ("indexes", Mon.indexes s1),
                               ("queues", Mon.queues s1), ("requests", Mon.requests s1)] do
              for v in vs do
                out.putStrLn s!"V {n} {name} {v}"
                viol := viol + 1
            for (name, v) in Mon.restartKeeps s0 s1 do
              out.putStrLn s!"V {n} {name} {v}"
              viol := viol + 1
            for v in Mon.restartCtxs s0 s1 do
              out.putStrLn s!"V {n} lifecycle {v}"
              viol := viol + 1
            for v in Mon.counts s1 do
              out.putStrLn s!"V {n} counts {v}"
              viol := viol + 1
            ghost := ghost.map (fun e => (e.1, { e.2 with lastStart := none, lastExpiry := none, clean := false, restarted := true }))
        | _, _, _ => out.putStrLn s!"P {n} genesis op before genesis"; viol := viol + 1
      else if opl.startsWith "modcall " || opl.startsWith "modbind " then
        -- the module-service branch is outside `Op`: the state invariants are evaluated on the implementation's state,
        -- and one step of `Model/ModSvc.lean` from the implementation's previous state must give its block
        match cfgp, pre, parseModOp opl with
        | some (cfg, params), some s0, some m =>
          let (s1, bad) := parseState cfg params ss
          for b in bad do out.putStrLn s!"P {n} unparsable state line: {b}"; viol := viol + 1
          for (name, vs) in [("escrowBacked", Mon.escrowBacked s1), ("depositBacked", Mon.depositBacked s1),
                             ("ownerEarnings", Mon.ownerEarnings s1), ("minDep", Mon.minDep s1), ("indexes", Mon.indexes s1)] do
            for v in vs do
              out.putStrLn s!"V {n} {name} {v}"
              viol := viol + 1
          -- C20: a message must not make the handler panic; C05: a message lowers no ordinary balance but its signer's
          if r.startsWith "R panic" then
            out.putStrLn s!"V {n} noPanic {r.drop 2}"; viol := viol + 1
          let signer : Addr := match m with
            | .call (.call _ _ _ cons _ _ _ _ _ _ _) _ _ => cons
            | .call _ _ _ => ""
            | .bind _ _ owner _ _ _ => owner
          for a in (s0.bank.bal.map (·.1)) do
            if a ≠ signer && a ≠ s0.cfg.escrow && a ≠ s0.cfg.deposit && a ≠ s0.cfg.collector && s1.bal a < s0.bal a then
              out.putStrLn s!"V {n} authority module-service step lowered the balance of {a}, which is neither its signer nor a module account"
              viol := viol + 1
          let (sm, rm, em) := runModOp s0 m
          let sm := match rm with | .ok => sm | _ => s0
          let em := match rm with | .ok => em | _ => []
          let want := [resStr rm] ++ em.map effStr ++ sortLines (stateLines sm)
          let got := [r] ++ es ++ sortLines (stateLines s1)
          let norm (l : List String) : List String := l.map (fun x =>
            if x.startsWith "R panic" then "R panic" else if x.startsWith "R err" then "R err" else x)
          if norm got ≠ norm want then
            let miss := want.filter (fun x => !got.contains x)
            let extra := got.filter (fun x => !want.contains x)
            out.putStrLn s!"V {n} modsvcLaw code `{r}` model `{resStr rm}`; only model {miss.take 3} only code {extra.take 3}"
            viol := viol + 1
          pre := some s1
        | _, _, _ => out.putStrLn s!"P {n} cannot parse module-service op"; viol := viol + 1
      else
      match parseOpLine opl with
      | .genesis cfg params _ _ =>
        cfgp := some (cfg, params)
        let (s, bad) := parseState cfg params ss
        for b in bad do out.putStrLn s!"P {n} unparsable state line: {b}"; viol := viol + 1
        pre := some s
      | .op o =>
        match cfgp, pre with
        | some (cfg, params), some s0 =>
          let (s1, bad) := parseState cfg params ss
          for b in bad do out.putStrLn s!"P {n} unparsable state line: {b}"; viol := viol + 1
          let res := (parseRes r).getD (.panic "unparsable result line")
          let effs := es.filterMap parseEffect
          if effs.length ≠ es.length then out.putStrLn s!"P {n} unparsable effect line"; viol := viol + 1
          let t : Mon.Step := { pre := s0, op := o, res := res, effs := effs, post := s1 }
          for (name, vs) in Mon.allMonitors t do
            for v in vs do
              out.putStrLn s!"V {n} {name} {v}"
              viol := viol + 1
          let (g', vs) := Mon.cadence ghost t
          ghost := g'
          for v in vs do
            out.putStrLn s!"V {n} cadence {v}"
            viol := viol + 1
          pre := some s1
        | _, _ => out.putStrLn s!"P {n} op before genesis"
      | .invalid | .unknownCtx =>
        -- stateless-invalid identifiers: the state must not change
        match cfgp, pre with
        | some (cfg, params), some s0 =>
          let (s1, _) := parseState cfg params ss
          if sortLines (stateLines s0) ≠ sortLines (stateLines s1) then
            out.putStrLn s!"V {n} rejectedNoChange a rejected operation changed the state"; viol := viol + 1
          pre := some s1
        | _, _ => pure ()
      | .bad msg => out.putStrLn s!"P {n} {msg}"; viol := viol + 1
  out.putStrLn s!"DONE steps={n} violations={viol}"

def main (args : List String) : IO UInt32 := do
  let stdin ← IO.getStdin
  let stdout ← IO.getStdout
  match args with
  | ["model"] => modelLoop stdin stdout none; return 0
  | ["monitor"] => monitorLoop stdin stdout; return 0
  | ["ids"] => SM.KeysMode.idsLoop stdin stdout    -- C18, see ServiceModel/Driver/KeysMode.lean
  | ["keys"] => SM.KeysMode.keysLoop stdin stdout  -- C18
  | _ => IO.eprintln "usage: driver model|monitor < trace"; return 2
