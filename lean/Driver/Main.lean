import ServiceModel.Driver.Wire
open SM SM.Wire

/-- model mode: read op lines (either bare, or prefixed `OP ` as in a harness trace; all
    other lines are ignored), execute them on the model, print step blocks -/
partial def modelLoop (h : IO.FS.Stream) (out : IO.FS.Stream) (st : Option State) : IO Unit := do
  let line ← h.getLine
  if line.isEmpty then return ()
  let line := String.ofList (line.toList.reverse.dropWhile (fun c => c = '\n' || c = '\r')).reverse
  let isTraceLine (l : String) : Bool :=
    l.startsWith "R " || l.startsWith "E " || l = "END" || l.startsWith "H " || l.startsWith "S " ||
    l.startsWith "A " || l.startsWith "D " || l.startsWith "B " || l.startsWith "OB " || l.startsWith "OW " ||
    l.startsWith "PO " || l.startsWith "PR " || l.startsWith "WD " || l.startsWith "CX " ||
    l.startsWith "XQ " || l.startsWith "NQ " || l.startsWith "XH " || l.startsWith "NH " || l.startsWith "RQ " ||
    l.startsWith "AB " || l.startsWith "AI " || l.startsWith "RS " || l.startsWith "VO " || l.startsWith "EF " ||
    l.startsWith "OE " || l.startsWith "garbage " || l.startsWith "#" || l.toList.all (· = ' ')
  let opLine : Option String :=
    if line.startsWith "OP " then some (String.ofList (line.toList.drop 3))
    else if isTraceLine line then none
    else some line
  match opLine with
  | none => modelLoop h out st
  | some l =>
    match parseOpLine l, st with
    | .bad msg, _ => do
      IO.eprintln msg
      IO.Process.exit 2
    | .genesis cfg params height time, _ => do
      let s := genesis cfg params height time
      for ln in blockLines l .ok [] s do out.putStrLn ln
      modelLoop h out (some s)
    | .invalid, some s => do
      for ln in blockLines l .invalid [] s do out.putStrLn ln
      modelLoop h out (some s)
    | .unknownCtx, some s => do
      for ln in blockLines l (.err .unknownRequestContext) [] s do out.putStrLn ln
      modelLoop h out (some s)
    | .op o, some s => do
      let (s', r, e) := step s o
      for ln in blockLines l r e s' do out.putStrLn ln
      out.flush
      match r, o with
      | .panic _, .endblock _ => return ()
      | _, _ => modelLoop h out (some s')
    | _, none => do
      IO.eprintln "first op must be genesis"
      IO.Process.exit 2

def main (args : List String) : IO UInt32 := do
  let stdin ← IO.getStdin
  let stdout ← IO.getStdout
  match args with
  | ["model"] => modelLoop stdin stdout none; return 0
  | _ => IO.eprintln "usage: driver model < ops"; return 2
