#!/bin/bash
# usage: sweep.sh SEED PROFILE HISTORIES OPS  -> prints first diff per history
export GOFLAGS=-mod=mod GOPROXY=off GOSUMDB=off GOTOOLCHAIN=local
D=$(mktemp -d /tmp/sweep.XXXX)
/verif/harness/bin/trace gen -seed $1 -profile $2 -histories $3 -ops $4 -out $D >/dev/null || exit 2
n=0; bad=0
for f in $D/h*.trace; do
  n=$((n+1))
  /verif/lean/.lake/build/bin/driver model < $f > $f.lean 2>$f.err || { echo "driver failed on $f: $(head -1 $f.err)"; }
  python3 /verif/tools/difftrace.py $f $f.lean > $f.diff || { bad=$((bad+1)); echo "== $f"; head -${5:-8} $f.diff | cut -c1-400; }
done
echo "histories=$n differing=$bad dir=$D"
