#!/bin/bash
# usage: thorough_parallel.sh <workers> — runs `./check <Cxx> thorough` for all 20 properties on <workers> private copies of
# /verif and /repo (unchanged tree) under /var/tmp/thw<i>, removed afterwards; prints one line per property.
export GOFLAGS=-mod=mod GOPROXY=off GOSUMDB=off GOTOOLCHAIN=local
N=$1
props=(C01 C02 C03 C04 C05 C06 C07 C08 C09 C10 C11 C12 C13 C14 C15 C16 C17 C18 C19 C20)
for w in $(seq 0 $((N-1))); do
  (
    W=/var/tmp/thw$w; rm -rf $W; mkdir -p $W
    rsync -a --exclude .git /verif/ $W/verif/; cp -r /repo $W/repo
    cd $W/verif
    i=0
    for p in "${props[@]}"; do
      if [ $((i % N)) -eq $w ]; then
        out=$(VERIF_REPO=$W/repo C18_REPO=$W/repo ./check $p thorough 2>&1 | grep -v '^KNOWN-FINDING'); rc=$?
        echo "$p $(echo "$out" | tail -1 | cut -c1-200)"
        if echo "$out" | grep -q '^VIOLATION'; then echo "$out" | tail -5 | cut -c1-500 > /var/tmp/thorough-$p.fail; fi
      fi
      i=$((i+1))
    done
    rm -rf $W
  ) > /var/tmp/thorough.$w.out 2>&1 &
done
wait
cat /var/tmp/thorough.*.out | sort; echo THOROUGH-DONE
