#!/bin/bash
# usage: regress_seeded.sh [ids…]  — re-applies every seeded change (default: all but harmless) transiently and runs the quick check of
# its property; prints one line per change: REPORTED (concrete replay) / REPORTED-NOINPUT / MISSED
export GOFLAGS=-mod=mod GOPROXY=off GOSUMDB=off GOTOOLCHAIN=local
cd /verif
ids="$@"
if [ -z "$ids" ]; then ids=$(ls seeded | grep -v harmless); fi
for id in $ids; do
  S=/verif/seeded/$id
  [ -f $S/patch.diff ] || continue
  pid=$(python3 -c "import json;print(json.load(open('$S/meta.json')).get('property','${id:0:3}'))" 2>/dev/null); pid=${pid:-${id:0:3}}
  out=$(bash tools/try_mutant.sh $S/patch.diff $pid 2>&1 | grep -v '^KNOWN-FINDING')
  if echo "$out" | grep -q '^VIOLATION.*no-failing-input-found'; then echo "$id $pid REPORTED-NOINPUT"
  elif echo "$out" | grep -q '^VIOLATION'; then echo "$id $pid REPORTED"
  else echo "$id $pid MISSED: $(echo "$out" | tail -1 | cut -c1-120)"; fi
done
echo REGRESS-DONE
