#!/bin/bash
# usage: try_mutant.sh <patch.diff> <Cxx> [<Cxx>...]   apply to /repo, run quick checks, undo
P=$1; shift
git -C /repo apply $P || exit 2
for id in "$@"; do
  echo "--- $id"; ( cd /verif && timeout 900 ./check $id quick 2>&1 | tail -4 | cut -c1-400 )
done
git -C /repo checkout -- . ; git -C /repo status --short | head -3
# rebuild the harness against the restored tree so that no stale (mutated) binary is left behind
( cd /verif/harness && GOFLAGS=-mod=mod GOPROXY=off GOSUMDB=off GOTOOLCHAIN=local go build -o bin/trace ./cmd/trace )
# evidence written while /repo was mutated must not stay: restore the committed files
git -C /verif checkout -- evidence/ 2>/dev/null
git -C /verif checkout -- lean/ServiceModel/Keys/Generated.lean 2>/dev/null
