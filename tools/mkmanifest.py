#!/usr/bin/env python3
"""regenerate MANIFEST.json from the property table and the theorem files that exist"""
import json, os, re, sys
ROOT = os.path.dirname(os.path.dirname(os.path.abspath(__file__)))
sys.path.insert(0, os.path.join(ROOT, "tools"))
import props

NOTES = json.load(open(os.path.join(ROOT, "tools", "manifest_notes.json")))
checks = []
for pid in props.ALL_IDS:
    thm = os.path.join(ROOT, "lean", "ServiceModel", "Properties", f"{pid}.lean")
    n = 0
    if os.path.exists(thm):
        n = len(re.findall(r"^theorem ", open(thm).read(), re.M))
    note = NOTES.get(pid, {})
    cat = "proof" if n else "exploration"
    checks.append({
        "property_id": pid,
        "quick_cmd": f"./check {pid} quick",
        "thorough_cmd": f"./check {pid} thorough",
        "evidence_file": f"/verif/evidence/{pid}.json",
        "replay_cmd_template": f"./check {pid} --replay {{path}}",
        "engine": "lean4-model+correspondence",
        "level_claimed": {"category": cat, "text": note.get("text", ""), "design_ref": note.get("design_ref", "DESIGN.md §5")},
        "level_note": note.get("note", ""),
        "technique": note.get("technique", "Lean 4 theorems over a hand-written model; model tied to the code by differential correspondence on every run")
    })
m = {
    "version": 1,
    "setup_cmd": "./setup.sh",
    "hooks": {"guard": "verif", "enable": "go build -tags verif (no hook is needed: the harness reaches the store, callbacks and module services through public APIs; no guarded source exists)",
              "baseline_off_cmd": "cd /repo && GOFLAGS=-mod=mod GOPROXY=off GOSUMDB=off go test -vet=off -count=1 ./...",
              "source_commits": [], "add_only": True},
    "engines": [{"name": "lean4-model+correspondence", "path": "lean/ harness/ check",
                 "serves_properties": props.ALL_IDS,
                 "kind_free_text": "Lean 4 model and theorems (lean/ServiceModel), Go harness driving the real module (harness/cmd/trace), ./check orchestrating correspondence, monitors and evidence"}],
    "checks": checks,
    "not_applicable": [],
    "notes": "fix: commits in /repo (D1-D7b, D10) are listed in known_findings.json; D9 is a known finding (C20)."
}
json.dump(m, open(os.path.join(ROOT, "MANIFEST.json"), "w"), indent=1)
print("checks:", len(checks), "proof:", sum(1 for c in checks if c["level_claimed"]["category"] == "proof"))
