#!/bin/bash
# usage: regress_parallel.sh <workers> [ids…] — like regress_seeded.sh but on <workers> private copies of /verif and /repo
# under /var/tmp/regw<i> (removed afterwards), so that /repo itself is not touched and the runs proceed in parallel.
export GOFLAGS=-mod=mod GOPROXY=off GOSUMDB=off GOTOOLCHAIN=local
N=$1; shift
ids="$@"; if [ -z "$ids" ]; then ids=$(ls /verif/seeded | grep -v harmless); fi
i=0; for id in $ids; do w=$((i % N)); echo $id >> /var/tmp/regw.list.$w; i=$((i+1)); done
for w in $(seq 0 $((N-1))); do
  (
    W=/var/tmp/regw$w; rm -rf $W; mkdir -p $W
    rsync -a --exclude .git /verif/ $W/verif/; cp -r /repo $W/repo
    cd $W/verif
    for id in $(cat /var/tmp/regw.list.$w); do
      S=/verif/seeded/$id; [ -f $S/patch.diff ] || continue
      pid=$(python3 -c "import json;print(json.load(open('$S/meta.json')).get('property','${id:0:3}'))" 2>/dev/null); pid=${pid:-${id:0:3}}
      git -C $W/repo apply $S/patch.diff || { echo "$id $pid PATCH-FAILED"; continue; }
      out=$(VERIF_REPO=$W/repo C18_REPO=$W/repo timeout 900 ./check $pid quick 2>&1 | grep -v '^KNOWN-FINDING')
      git -C $W/repo checkout -- .
      if echo "$out" | grep -q '^VIOLATION.*no-failing-input-found'; then echo "$id $pid REPORTED-NOINPUT"
      elif echo "$out" | grep -q '^VIOLATION'; then echo "$id $pid REPORTED"
      else echo "$id $pid MISSED: $(echo "$out" | tail -1 | cut -c1-120)"; fi
    done
    rm -rf $W /var/tmp/regw.list.$w
  ) > /var/tmp/regress.$w.out 2>&1 &
done
wait
cat /var/tmp/regress.*.out | sort; echo REGRESS-DONE
