#!/bin/bash
# usage: tools/coverage.sh [seed]   — which statements of /repo does the correspondence run execute?
# Builds the harness with Go's coverage instrumentation for the module's packages, runs the corpus, every directed grid and
# every generator profile (quick-tier sizes) on it, and writes notes/coverage.txt: per-function statement coverage of
# abci.go, handler.go, genesis.go, keeper/*.go, types/*.go, client/utils/query.go, the functions never entered first.
# This is a measure of the generator (what the tie between model and code can see), not a check: nothing here decides a property.
export GOFLAGS=-mod=mod GOPROXY=off GOSUMDB=off GOTOOLCHAIN=local
seed=${1:-1}; V=/verif; W=$(mktemp -d /var/tmp/cov.XXXX); export GOCOVERDIR=$W/cov; mkdir -p $GOCOVERDIR $W/gen
( cd $V/harness && go build -tags verif -cover -coverpkg=./...,github.com/irismod/service/... -o $W/trace ./cmd/trace ) || exit 2
for f in $V/corpus/*.ops; do $W/trace run - < $f > /dev/null 2>&1; done
python3 - "$W" <<'PY'
import sys, os, subprocess
sys.path.insert(0, "/verif/tools")
import directed
W = sys.argv[1]
n = 0
for name, mk in directed.GRIDS.items():
    for item in mk():
        ops = item[1] if isinstance(item, tuple) else item
        text = "\n".join(ops) + "\n" if isinstance(ops, list) else ops
        subprocess.run([W + "/trace", "run", "-"], input=text.encode(), stdout=subprocess.DEVNULL, stderr=subprocess.DEVNULL)
        n += 1
print("grid histories:", n)
PY
for p in mixed money bindings lifecycle authority modules queries genesis modsvc; do
  $W/trace gen -seed $seed -profile $p -histories 24 -ops 150 -out $W/gen/$p > /dev/null 2>&1
done
# the key / id functions (C18 pipeline)
python3 $V/tools/c18.py --help > /dev/null 2>&1
( cd $V/harness && go tool covdata func -i=$GOCOVERDIR ) > $W/func.txt 2>/dev/null
python3 - "$W/func.txt" "$seed" > $V/notes/coverage.txt <<'PY'
import sys, re
rows = []
for l in open(sys.argv[1]):
    m = re.match(r"(\S+):(\d+):\s+(\S+)\s+([\d.]+)%", l)
    if not m: continue
    f, line, fn, pct = m.group(1), int(m.group(2)), m.group(3), float(m.group(4))
    f = f.replace("github.com/irismod/service/", "")
    if f.startswith("harness/") or "verif/harness" in f or f.endswith(".pb.go") or f.endswith(".pb.gw.go") or "/simulation/" in f or f.startswith("app/") or f.startswith("simulation/"): continue
    rows.append((f, line, fn, pct))
tot = [l for l in open(sys.argv[1]) if l.startswith("total")]
print(f"# statement coverage of irismod/service under the correspondence inputs (corpus, all directed grids, 24 histories x 150 ops of every profile, seed {sys.argv[2]})")
print("# generated code (*.pb.go), simulation/ and app/ left out;", (tot[0].strip() if tot else ""))
zero = [r for r in rows if r[3] == 0.0]
part = [r for r in rows if 0.0 < r[3] < 100.0]
full = [r for r in rows if r[3] == 100.0]
print(f"# functions: {len(rows)}  fully covered: {len(full)}  partly: {len(part)}  never entered: {len(zero)}\n")
print("## never entered")
for f, line, fn, pct in sorted(zero): print(f"{f}:{line} {fn}")
print("\n## partly covered")
for f, line, fn, pct in sorted(part, key=lambda r: r[3]): print(f"{pct:5.1f}% {f}:{line} {fn}")
PY
rm -rf $W
head -5 $V/notes/coverage.txt
