#!/bin/bash
# usage: ingest_mut2.sh <group letter>   copy /tmp/mut2-<g>-out/<Cxx> to seeded/<Cxx>M2, confirm, try the check
export GOFLAGS=-mod=mod GOPROXY=off GOSUMDB=off GOTOOLCHAIN=local
g=$1
for d in /tmp/mut2-$g-out/C*; do
  id=$(basename $d); S=/verif/seeded/${id}M2; mkdir -p $S
  cp $d/patch.diff $S/patch.diff; cp $d/meta.json $S/meta.json
  cp $d/demo_test.go.txt $S/seeded_$(echo ${id}m2 | tr 'A-Z' 'a-z')_test.go.txt
  dir=$(python3 -c "import json;print(json.load(open('$S/meta.json')).get('demo_dir','.'))")
  bash /verif/tools/confirm_seeded.sh ${id}M2 "$dir" "Mut2$id" 2>&1 | tail -1
  echo "--- check $id"; bash /verif/tools/try_mutant.sh $S/patch.diff $id 2>&1 | grep -v "^KNOWN-FINDING\|^--- " | tail -3 | cut -c1-420
done
