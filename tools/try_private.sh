#!/bin/bash
# usage: try_private.sh <seeded id> [<Cxx>…]   run the quick checks against a PRIVATE copy of /repo with the seeded change
# applied (nothing in /repo is touched; safe while other runs use /repo). Evidence written meanwhile is restored.
export GOFLAGS=-mod=mod GOPROXY=off GOSUMDB=off GOTOOLCHAIN=local
id=$1; shift
props="${@:-${id:0:3}}"
W=$(mktemp -d /var/tmp/tryp.XXXX); cp -r /repo $W/repo
git -C $W/repo apply /verif/seeded/$id/patch.diff || { echo "$id PATCH-FAILED"; rm -rf $W; exit 2; }
for p in $props; do
  out=$(cd /verif && VERIF_REPO=$W/repo C18_REPO=$W/repo timeout 1500 ./check $p quick 2>&1 | grep -v '^KNOWN-FINDING')
  echo "$id $p: $(echo "$out" | grep -B1 '^VIOLATION\|^OK' | tail -2 | cut -c1-300 | tr '\n' ' ')"
done
rm -rf $W
sed -i 's#github.com/irismod/service => .*#github.com/irismod/service => /repo#' /verif/harness/go.mod
( cd /verif/harness && go build -tags verif -o bin/trace ./cmd/trace )   # rebuild against /repo itself
git -C /verif checkout -- evidence lean/ServiceModel/Keys/Generated.lean 2>/dev/null
