#!/bin/bash
# usage: ingest_parallel.sh <round> <workers> <spec…>   spec = <group>:<Cxx> (A/B/C layout) or <group> (Cxx subdirectories)
# copies /tmp/mut<round>-<g>-out/* to seeded/<id>, then confirms each change (fresh worktree) and runs the quick check of
# its property on a private copy of /verif and /repo, <workers> at a time. Prints one line per change.
export GOFLAGS=-mod=mod GOPROXY=off GOSUMDB=off GOTOOLCHAIN=local
n=$1; N=$2; shift 2
ids=()
for spec in "$@"; do
  g=${spec%%:*}; pid=${spec#*:}
  if [ "$spec" != "$g" ]; then
    for d in /tmp/mut$n-$g-out/[ABC]; do [ -d $d ] || continue
      x=$(basename $d); id=${pid}${x}$n; S=/verif/seeded/$id; mkdir -p $S
      cp $d/patch.diff $d/meta.json $S/; cp $d/demo_test.go.txt $S/seeded_$(echo $id | tr 'A-Z' 'a-z')_test.go.txt
      ids+=("$id:$pid:Mut$n$pid$x")
    done
  else
    for d in /tmp/mut$n-$g-out/C*; do [ -d $d ] || continue
      p=$(basename $d); id=${p}M$n; S=/verif/seeded/$id; mkdir -p $S
      cp $d/patch.diff $d/meta.json $S/; cp $d/demo_test.go.txt $S/seeded_$(echo ${p}m$n | tr 'A-Z' 'a-z')_test.go.txt
      ids+=("$id:$p:Mut$n$p")
    done
  fi
done
rm -f /var/tmp/ingw.list.*
i=0; for e in "${ids[@]}"; do echo $e >> /var/tmp/ingw.list.$((i % N)); i=$((i+1)); done
for w in $(seq 0 $((N-1))); do
  [ -f /var/tmp/ingw.list.$w ] || continue
  (
    W=/var/tmp/ingw$w; rm -rf $W; mkdir -p $W
    rsync -a --exclude .git /verif/ $W/verif/; cp -r /repo $W/repo
    for e in $(cat /var/tmp/ingw.list.$w); do
      id=${e%%:*}; rest=${e#*:}; pid=${rest%%:*}; pat=${rest#*:}
      S=/verif/seeded/$id
      dir=$(python3 -c "import json;print(json.load(open('$S/meta.json')).get('demo_dir','.'))")
      conf=$(bash /verif/tools/confirm_seeded.sh $id "$dir" "$pat" 2>&1 | tail -1)
      git -C $W/repo apply $S/patch.diff || { echo "$id PATCH-FAILED"; continue; }
      out=$(cd $W/verif && VERIF_REPO=$W/repo C18_REPO=$W/repo timeout 900 ./check $pid quick 2>&1 | grep -v '^KNOWN-FINDING')
      git -C $W/repo checkout -- .
      echo "$conf"
      echo "   $id check: $(echo "$out" | grep -B1 '^VIOLATION\|^OK' | tail -2 | cut -c1-330 | tr '\n' ' ')"
    done
    rm -rf $W /var/tmp/ingw.list.$w
  ) > /var/tmp/ingest.$w.out 2>&1 &
done
wait
cat /var/tmp/ingest.*.out; echo INGEST-DONE
