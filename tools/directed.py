# Directed enumerations: small scripted histories that place operations at every offset
# relative to batch start and expiry (the "every placement of ..." quantifiers of C08-C12, C16).
# They are generated at check time, run on the real code like corpus files, compared with the
# model and monitored. This is part of the search/validation, not of the proof.
import hashlib

ESCROW = "74c7ffcfeedebd260205d44c76dd80156cdef60e"
DEPOSIT = "c1d67985396d4d8517d4a39ce639463c6a08e8ea"
COLLECTOR = "f1829676db577682e944fc3493d451b67ff3e29f"
O1 = "01" * 20
P1 = "02" * 20
P2 = "33" * 20
C1 = "03" * 20
PZ = "4400" + "44" * 17 + "00"      # a provider address with 0x00 bytes (the key separator)


def genesis(max_timeout=100, mult=200, min_dep="6000", tax="100000000000000000", slash="1000000000000000",
            modules="oracle"):
    return (f"genesis height=1 time=1000000000000 maxTimeout={max_timeout} mult={mult} minDep={min_dep} tax={tax} slash={slash} "
            f"complaint=1296000000000000 arbitration=432000000000000 modules={modules} modsvc=- "
            f"escrow={ESCROW} deposit={DEPOSIT} collector={COLLECTOR}")


def tx(n):
    return "%064x" % n


def prelude(two_providers=False):
    ops = [genesis(), f"fund acct={O1} amt=1000000", f"fund acct={C1} amt=100000",
           f"define name=svc author={O1} schema=ok",
           f"bind svc=svc prov={P1} owner={O1} dep=10000 price=5stake promT=- promV=- qos=1"]
    if two_providers:
        ops.append(f"bind svc=svc prov={P2} owner={O1} dep=10000 price=7stake promT=- promV=- qos=1")
    return ops


def ctx_id(n, idx=0):
    return tx(n) + "%016x" % idx


def req_id(n, batch, height, index, idx=0):
    return ctx_id(n, idx) + "%016x%016x%04x" % (batch, height, index)


def lifecycle_grid(T=2, F=4, total=3, horizon=11):
    """a repeated context (timeout T, frequency F); `pause` at block i and `start` at block j for
    every i <= j <= horizon; also kill / updatectx placements. Block k is the k-th endblock."""
    out = []
    cid = ctx_id(0xC10)
    call = (f"call tx={tx(0xC10)} idx=0 svc=svc provs={P1} cons={C1} cap=10 timeout={T} super=0 rep=1 "
            f"freq={F} total={total} input=ok")
    for i in range(0, horizon):
        for j in range(i, horizon + 1):
            ops = prelude() + [call]
            for k in range(horizon + F + 2):
                if k == i:
                    ops.append(f"pause ctx={cid} cons={C1}")
                if k == j:
                    ops.append(f"start ctx={cid} cons={C1}")
                ops.append("endblock dt=5000000000")
            out.append((f"grid:pause@{i}:start@{j}:T{T}F{F}N{total}", ops))
    # the batch is completed by its response one block after it started; pause / start around its (still queued) expiry
    T2, F2 = 3, 5
    call2 = (f"call tx={tx(0xC10)} idx=0 svc=svc provs={P1} cons={C1} cap=10 timeout={T2} super=0 rep=1 "
             f"freq={F2} total=3 input=ok")
    for i in range(1, T2 + 3):
        for j in range(i, T2 + 4):
            ops = prelude() + [call2]
            for k in range(2 * F2 + T2 + 4):
                if k == i:
                    ops.append(f"pause ctx={cid} cons={C1}")
                if k == j:
                    ops.append(f"start ctx={cid} cons={C1}")
                ops.append("endblock dt=5000000000")
                if k == 0:
                    ops.append(f"respond req={req_id(0xC10, 1, 1, 0)} prov={P1} code=200 out=valid")
            out.append((f"grid:answered:pause@{i}:start@{j}:T{T2}F{F2}N3", ops))
    # a one-shot context updated while its only batch is in flight (the update stores frequency and total whatever the
    # repeat flag says): it must still end with that batch
    one = (f"call tx={tx(0xC10)} idx=0 svc=svc provs={P1} cons={C1} cap=10 timeout=2 super=0 rep=0 freq=0 total=0 input=ok")
    for fq, tot in ((2, 3), (3, -1), (2, 2)):
        ops = prelude() + [one, "endblock dt=5000000000",
                           f"updatectx ctx={cid} cons={C1} provs=- cap=- timeout=0 freq={fq} total={tot}"]
        ops += ["endblock dt=5000000000"] * 8
        out.append((f"grid:oneshot-updated:F{fq}N{tot}", ops))
    # total reached while paused (paused in the last batch, which expires meanwhile); later start and pause again in one
    # block: the entry queued by the start finds a paused context
    for tot in (1, 2):
        callt = (f"call tx={tx(0xC10)} idx=0 svc=svc provs={P1} cons={C1} cap=10 timeout=2 super=0 rep=1 freq=3 total={tot} input=ok")
        last = 1 + 3 * (tot - 1)            # block in which the last batch starts
        for j in (last + 3, last + 4):
            ops = prelude() + [callt]
            for k in range(last + 8):
                if k == last + 1:
                    ops.append(f"pause ctx={cid} cons={C1}")
                if k == j:
                    ops += [f"start ctx={cid} cons={C1}", f"pause ctx={cid} cons={C1}"]
                ops.append("endblock dt=5000000000")
            out.append((f"grid:total-reached-paused:N{tot}:start+pause@{j}", ops))
    for i in range(0, horizon):
        ops = prelude() + [call]
        for k in range(horizon + 2):
            if k == i:
                ops.append(f"kill ctx={cid} cons={C1}")
            ops.append("endblock dt=5000000000")
        out.append((f"grid:kill@{i}:T{T}F{F}N{total}", ops))
        ops = prelude() + [call]
        for k in range(horizon + F + 4):
            if k == i:
                ops.append(f"updatectx ctx={cid} cons={C1} provs=- cap=- timeout={T + 1} freq={F + 2} total=0")
            ops.append("endblock dt=5000000000")
        out.append((f"grid:update@{i}:T{T}F{F}N{total}", ops))
    return out


def respond_grid(T=3):
    """a one-shot request issued in block 1 (expiry 1+T): a response by its provider placed in every
    block from issue+1 to expiry+1, twice, and by a stranger; with a pause/kill of a repeated context in between."""
    out = []
    for rep in (0, 1):
        call = (f"call tx={tx(0xC08)} idx=0 svc=svc provs={P1},{P2} cons={C1} cap=10 timeout={T} super=0 rep={rep} "
                f"freq={T if rep else 0} total={2 if rep else 0} input=ok")
        r0 = req_id(0xC08, 1, 1, 0)
        r1 = req_id(0xC08, 1, 1, 1)
        for at in range(1, T + 3):
            for kind in ("valid", "malformed", "twice", "stranger"):
                ops = prelude(two_providers=True) + [call]
                for k in range(1, T + 4):
                    ops.append("endblock dt=5000000000")
                    if k == at:
                        if kind == "stranger":
                            ops.append(f"respond req={r0} prov={P2} code=200 out=valid")
                        else:
                            ops.append(f"respond req={r0} prov={P1} code=200 out={'malformed' if kind == 'malformed' else 'valid'}")
                            if kind == "twice":
                                ops.append(f"respond req={r0} prov={P1} code=200 out=valid")
                                ops.append(f"respond req={r1} prov={P2} code=500 out=absent")
                    if rep and k == 2:
                        ops.append(f"pause ctx={ctx_id(0xC08)} cons={C1}")
                out.append((f"grid:respond@{at}:{kind}:rep{rep}:T{T}", ops))
    return out


def module_grid():
    """module-owned contexts: thresholds 1..2 of 2 providers, every number/kind of responses, batch skipped"""
    out = []
    for thr in (1, 2):
        for pattern in ("none", "one-valid", "one-malformed", "both-valid", "valid+absent", "malformed+valid"):
            ops = prelude(two_providers=True)
            ops.append(f"modcreate tx={tx(0xC12)} idx=0 mod=oracle svc=svc provs={P1},{P2} cons={C1} cap=10 timeout=2 "
                       f"super=0 rep=1 freq=3 total=2 input=ok state=running thr={thr}")
            ops.append("endblock dt=5000000000")
            r0 = req_id(0xC12, 1, 1, 0)
            r1 = req_id(0xC12, 1, 1, 1)
            if pattern == "one-valid":
                ops.append(f"respond req={r0} prov={P1} code=200 out=valid")
            elif pattern == "one-malformed":
                ops.append(f"respond req={r1} prov={P2} code=200 out=malformed")
            elif pattern == "both-valid":
                ops += [f"respond req={r1} prov={P2} code=200 out=valid", f"respond req={r0} prov={P1} code=200 out=valid"]
            elif pattern == "valid+absent":
                ops += [f"respond req={r0} prov={P1} code=200 out=valid", f"respond req={r1} prov={P2} code=400 out=absent"]
            elif pattern == "malformed+valid":
                ops += [f"respond req={r0} prov={P1} code=200 out=malformed", f"respond req={r1} prov={P2} code=200 out=valid"]
            # make the second batch a skipped one: both providers disabled
            ops += [f"disable svc=svc prov={P1} owner={O1}", f"disable svc=svc prov={P2} owner={O1}"]
            ops += ["endblock dt=5000000000"] * 8
            out.append((f"grid:module:thr{thr}:{pattern}", ops))
    # the response threshold changed while a batch is in flight: the next batch is decided with the threshold in force
    for newthr, disable in ((2, True), (2, False), (1, True)):
        ops = prelude(two_providers=True)
        ops.append(f"modcreate tx={tx(0xC06)} idx=0 mod=oracle svc=svc provs={P1},{P2} cons={C1} cap=10 timeout=2 "
                   f"super=0 rep=1 freq=3 total=3 input=ok state=running thr={3 - newthr}")
        ops.append("endblock dt=5000000000")
        ops.append(f"modupdate ctx={ctx_id(0xC06)} cons={C1} provs=- thr={newthr} cap=- timeout=0 freq=0 total=0")
        if disable:
            ops.append(f"disable svc=svc prov={P2} owner={O1}")
        ops += ["endblock dt=5000000000"] * 7
        out.append((f"grid:module:rethreshold{newthr}:{'one' if disable else 'two'}-eligible", ops))
    # … and the batch in flight is judged by the threshold it was started with: one of two providers answers
    for oldthr, newthr in ((2, 1), (1, 2)):
        ops = prelude(two_providers=True)
        ops.append(f"modcreate tx={tx(0xC0C)} idx=0 mod=oracle svc=svc provs={P1},{P2} cons={C1} cap=10 timeout=2 "
                   f"super=0 rep=1 freq=3 total=2 input=ok state=running thr={oldthr}")
        ops.append("endblock dt=5000000000")
        ops.append(f"modupdate ctx={ctx_id(0xC0C)} cons={C1} provs=- thr={newthr} cap=- timeout=0 freq=0 total=0")
        ops.append(f"respond req={req_id(0xC0C, 1, 1, 0)} prov={P1} code=200 out=valid")
        ops += ["endblock dt=5000000000"] * 6
        out.append((f"grid:module:rethreshold-inflight:{oldthr}to{newthr}:one-answer", ops))
    return out


def query_grid():
    """C17: one scenario with names that are prefixes of each other bound by the same owner, two providers, a
    repeated context; after every step of interest every query kind is asked through both interfaces
    (existing and non-existing arguments, batch numbers 0..3)."""
    O2 = "0a" * 20
    cid = ctx_id(0xC17)
    r0, r1 = req_id(0xC17, 1, 1, 0), req_id(0xC17, 1, 1, 1)

    def queries():
        qs = []
        for via in ("grpc", "legacy"):
            for name in ("a", "a-b", "ab", "svc", "zz"):
                qs.append(f"query via={via} kind=definition name={name}")
                qs.append(f"query via={via} kind=bindings svc={name} owner=-")
                for o in (O1, O2, C1):
                    qs.append(f"query via={via} kind=bindings svc={name} owner={o}")
                for pv in (P1, P2, PZ, C1):
                    qs.append(f"query via={via} kind=binding svc={name} prov={pv}")
                    qs.append(f"query via={via} kind=requests svc={name} prov={pv}")
            for o in (O1, O2, C1, P1):
                qs.append(f"query via={via} kind=withdraw owner={o}")
                qs.append(f"query via={via} kind=fees prov={o}")
            for c in (cid, ctx_id(0xC18), ctx_id(0xC19, 1)):
                qs.append(f"query via={via} kind=context ctx={c}")
                for b in (0, 1, 2, 3):
                    qs.append(f"query via={via} kind=requests_by_ctx ctx={c} batch={b}")
                    qs.append(f"query via={via} kind=responses ctx={c} batch={b}")
            for r in (r0, r1, req_id(0xC17, 2, 5, 0), req_id(0xC18, 1, 1, 0), req_id(0xC19, 1, 1, 0, 1)):
                qs.append(f"query via={via} kind=request req={r}")
                qs.append(f"query via={via} kind=response req={r}")
            qs.append(f"query via={via} kind=params")
            for n in ("pricing", "result", "Pricing", "RESULT", "schema", "-"):
                qs.append(f"query via={via} kind=schema name={n}")
        # the off-chain recovery of a request from its id (client/utils/query.go), served by a stub node
        for r in (r0, r1, req_id(0xC17, 2, 5, 0), req_id(0xC17, 2, 5, 1), req_id(0xC18, 1, 1, 0), req_id(0xC19, 1, 1, 0, 1)):
            qs.append(f"query via=client kind=request req={r}")
        return qs

    ops = [genesis(), f"fund acct={O1} amt=1000000", f"fund acct={O2} amt=1000000", f"fund acct={C1} amt=100000",
           f"define name=a author={O1} schema=ok", f"define name=a-b author={O1} schema=ok", f"define name=ab author={O2} schema=ok",
           f"bind svc=a prov={P1} owner={O1} dep=10000 price=5stake promT=- promV=- qos=1",
           f"bind svc=a-b prov={P1} owner={O1} dep=10000 price=6stake promT=- promV=- qos=1",
           f"bind svc=a prov={P2} owner={O2} dep=10000 price=7stake promT=- promV=- qos=1",
           f"bind svc=ab prov={P2} owner={O2} dep=10000 price=8stake promT=- promV=- qos=1",
           f"bind svc=a prov={PZ} owner={O1} dep=10000 price=9stake promT=- promV=- qos=9",
           f"bind svc=ab prov={PZ} owner={O1} dep=10000 price=9stake promT=- promV=- qos=9",
           f"setwd owner={O1} addr={C1}"]
    ops += queries()
    ops.append(f"call tx={tx(0xC17)} idx=0 svc=a provs={P1},{P2} cons={C1} cap=100 timeout=3 super=0 rep=1 freq=4 total=3 input=ok")
    # a second context of another consumer calling the same provider: two contexts have requests pending with one binding
    ops.append(f"call tx={tx(0xC19)} idx=1 svc=a provs={P1} cons={O2} cap=50 timeout=5 super=0 rep=0 freq=0 total=0 input=ok")
    ops.append("endblock dt=5000000000")
    ops += queries()                                    # both requests pending
    ops.append(f"respond req={r0} prov={P1} code=200 out=valid")
    ops += queries()                                    # one answered (stored, no longer pending), one pending
    ops.append(f"respond req={r1} prov={P2} code=400 out=absent")
    ops += queries()                                    # both answered, one of them with an error result and no output
    ops += ["endblock dt=5000000000"] * 3
    ops += queries()                                    # batch expired, records cleaned, earnings present
    ops += ["endblock dt=5000000000"] * 2
    ops += queries()                                    # second batch in flight
    return [("grid:query", ops)]


def pricing_grid():
    """C07 (and C01/C02): a binding with a time promotion AND a volume promotion in force together, prices and
    discounts chosen so that the order of multiplication and truncation matters; a repeated context is answered in
    every batch, so the volume crosses its thresholds while the time window is open, then the window closes."""
    out = []
    t0 = 1000000000000
    for base, dT, dV, v1 in [("5stake", "500000000000000000", "900000000000000000", 1),
                             ("3stake", "500000000000000000", "500000000000000000", 1),
                             ("7stake", "900000000000000000", "900000000000000000", 2),
                             ("30stake", "100000000000000000", "500000000000000000", 1),
                             ("0.5stake", "500000000000000000", "900000000000000000", 1),
                             ("5stake", "999999999999999999", "1", 2),
                             # 18-decimal discounts for which (p x dT) x dV and p x (dT x dV) truncate differently
                             ("30stake", "300000000000000000", "333333333333333333", 1),
                             ("30stake", "700000000000000000", "142857142857142857", 1),
                             ("30stake", "300000000000000000", "999999999999999999", 2)]:
        for win in (3, 6):          # the time window closes after `win` blocks of 5 s
            ops = [genesis(), f"fund acct={O1} amt=1000000", f"fund acct={C1} amt=100000",
                   f"define name=svc author={O1} schema=ok",
                   f"bind svc=svc prov={P1} owner={O1} dep=10000 price={base} promT={t0}:{t0 + win * 5000000000}:{dT} promV={v1}:{dV};{v1 + 2}:{dT} qos=1",
                   f"call tx={tx(0xC07)} idx=0 svc=svc provs={P1} cons={C1} cap=100 timeout=1 super=0 rep=1 freq=1 total=8 input=ok"]
            for k in range(1, 9):
                ops.append("endblock dt=5000000000")
                ops.append(f"respond req={req_id(0xC07, k, k, 0)} prov={P1} code=200 out=valid")
            ops += ["endblock dt=5000000000", f"withdraw owner={O1} prov=-"]
            out.append((f"grid:pricing:{base}:{dT}:{dV}:v{v1}:w{win}", ops))
    # two consecutive time windows with different discounts: batches fall before, inside the first, inside the second
    # and after both (the selection of the window in force)
    for base, d1, d2 in [("30stake", "500000000000000000", "100000000000000000"), ("7stake", "900000000000000000", "500000000000000000")]:
        ops = [genesis(), f"fund acct={O1} amt=1000000", f"fund acct={C1} amt=100000",
               f"define name=svc author={O1} schema=ok",
               f"bind svc=svc prov={P1} owner={O1} dep=10000 price={base} promT={t0 + 10000000000}:{t0 + 20000000000}:{d1};{t0 + 20000000000}:{t0 + 35000000000}:{d2} promV=- qos=1",
               f"call tx={tx(0xC07)} idx=0 svc=svc provs={P1} cons={C1} cap=100 timeout=1 super=0 rep=1 freq=1 total=10 input=ok"]
        for k in range(1, 11):
            ops.append("endblock dt=5000000000")
            ops.append(f"respond req={req_id(0xC07, k, k, 0)} prov={P1} code=200 out=valid")
        ops.append("endblock dt=5000000000")
        out.append((f"grid:pricing:two-windows:{base}", ops))
    # amounts beyond 64 bits: a fee above 2^63 issued, answered (tax and earnings), expired (refund), withdrawn
    huge, dep, rich = 2 ** 64 + 7, (2 ** 64 + 7) * 200 + 1400, 10 ** 25     # fee, and fee net of tax, above 2^63
    ops = [genesis(), f"fund acct={O1} amt={rich}", f"fund acct={C1} amt={rich}",
           f"define name=svc author={O1} schema=ok",
           f"bind svc=svc prov={P1} owner={O1} dep={dep} price={huge}stake promT=- promV=- qos=1",
           f"bind svc=svc prov={P2} owner={O1} dep={dep} price={huge}stake promT=- promV=- qos=1",
           f"call tx={tx(0xC07)} idx=0 svc=svc provs={P1},{P2} cons={C1} cap={huge} timeout=2 super=0 rep=1 freq=2 total=2 input=ok",
           "endblock dt=5000000000",
           f"respond req={req_id(0xC07, 1, 1, 0)} prov={P1} code=200 out=valid",
           "endblock dt=5000000000", "endblock dt=5000000000",
           f"respond req={req_id(0xC07, 2, 3, 1)} prov={P2} code=200 out=malformed",
           "endblock dt=5000000000", "endblock dt=5000000000",
           f"withdraw owner={O1} prov=-", "endblock dt=5000000000"]
    out.append(("grid:pricing:beyond-64-bits", ops))
    return out


def deposit_grid():
    """C14 / C03: an available binding at deposit D; one update raises the price (new minimum M = price x multiple)
    and tops the deposit up by T, for T at every boundary of the window in which D + T is still below M — in
    particular (M - D) / 2, where a doubly counted top-up would pass — and the same with enable and bind."""
    out = []
    D, mult = 10000, 200
    for newp in (60, 51, 100):
        M = newp * mult
        gap = M - D
        for T in sorted({0, 1, gap // 2 - 1, gap // 2, gap // 2 + 1, gap - 1, gap, gap + 1}):
            for how in ("update", "disable-update-enable"):
                ops = [genesis(), f"fund acct={O1} amt=10000000", f"define name=svc author={O1} schema=ok",
                       f"bind svc=svc prov={P1} owner={O1} dep={D} price=50stake promT=- promV=- qos=1"]
                dep = "-" if T == 0 else str(T)
                if how == "update":
                    ops.append(f"update svc=svc prov={P1} owner={O1} dep={dep} price={newp}stake promT=- promV=- qos=0")
                else:
                    ops += [f"disable svc=svc prov={P1} owner={O1}",
                            f"update svc=svc prov={P1} owner={O1} dep=- price={newp}stake promT=- promV=- qos=0",
                            f"enable svc=svc prov={P1} owner={O1} dep={dep}"]
                ops.append("endblock dt=5000000000")
                out.append((f"grid:deposit:{how}:p{newp}:T{T}", ops))
    # the minimum follows the BASE price, also while a time promotion halves what is charged: price 100, minimum 20000
    t0 = 1000000000000
    for dep in (10000, 15000, 19999, 20000):
        promo = f"{t0}:{t0 + 50000000000}:500000000000000000"
        ops = [genesis(), f"fund acct={O1} amt=10000000", f"fund acct={C1} amt=100000", f"define name=svc author={O1} schema=ok",
               f"bind svc=svc prov={P1} owner={O1} dep={dep} price=100stake promT={promo} promV=- qos=1",
               f"bind svc=svc prov={P2} owner={O1} dep=20000 price=100stake promT={promo} promV=- qos=1",
               f"disable svc=svc prov={P2} owner={O1}",
               f"update svc=svc prov={P2} owner={O1} dep=- price=150stake promT={promo} promV=- qos=0",
               f"enable svc=svc prov={P2} owner={O1} dep={dep - 10000 if dep > 10000 else '-'}",
               "endblock dt=5000000000"]
        out.append((f"grid:deposit:time-promotion:D{dep}", ops))
    # price x multiple beyond the machine integers: a product taken in 64 bits wraps (2^63: negative, 2^64: small) while
    # the true minimum is far above the deposit offered; bind, a price raise of an available binding, and enable
    for price, mult, dep in ((10 ** 17, 200, 2 * 10 ** 18),            # 2*10^19 wraps to about 1.55*10^18 in int64
                             (92233720368547759, 200, 6000),             # 2^64 + 184
                             (46116860184273880, 200, 7000),             # 2^63 + 384: negative in int64
                             (2 ** 62 + 1, 4, 10 ** 6),                  # 2^64 + 4
                             (3 * 10 ** 9, 3 * 10 ** 9, 10 ** 12)):      # 9*10^18 < 2^63 < 2^64: no wrap, rejected as well
        for how in ("bind", "update", "enable"):
            ops = [genesis(mult=mult), f"fund acct={O1} amt={10 ** 30}", f"define name=svc author={O1} schema=ok"]
            if how == "bind":
                ops.append(f"bind svc=svc prov={P1} owner={O1} dep={dep} price={price}stake promT=- promV=- qos=1")
            else:
                ops.append(f"bind svc=svc prov={P1} owner={O1} dep={max(dep, 6000)} price=1stake promT=- promV=- qos=1")
                if how == "update":
                    ops.append(f"update svc=svc prov={P1} owner={O1} dep=- price={price}stake promT=- promV=- qos=0")
                else:
                    ops += [f"disable svc=svc prov={P1} owner={O1}",
                            f"update svc=svc prov={P1} owner={O1} dep=- price={price}stake promT=- promV=- qos=0",
                            f"enable svc=svc prov={P1} owner={O1} dep=-"]
            ops.append("endblock dt=5000000000")
            out.append((f"grid:deposit:wrap:{how}:p{price}:m{mult}", ops))
    return out


def longrun_grid():
    """a repeated context (timeout 1, frequency 1, unbounded) driven through more than 256 batches: one provider answers
    every batch, the other never does (expiry, refund and slash every block); the per-batch scans are asked around batch
    255 / 256, where the low byte of the big-endian batch counter wraps."""
    cid = ctx_id(0xC55)
    ops = [genesis(slash="10000000000000"), f"fund acct={O1} amt=1000000", f"fund acct={C1} amt=1000000",
           f"define name=svc author={O1} schema=ok",
           f"bind svc=svc prov={P1} owner={O1} dep=10000 price=2stake promT=- promV=- qos=1",
           f"bind svc=svc prov={P2} owner={O1} dep=10000 price=3stake promT=- promV=- qos=1",
           f"call tx={tx(0xC55)} idx=0 svc=svc provs={P1},{P2} cons={C1} cap=10 timeout=1 super=0 rep=1 freq=1 total=-1 input=ok"]
    for k in range(1, 259):
        ops.append("endblock dt=5000000000")
        ops.append(f"respond req={req_id(0xC55, k, k, 0)} prov={P1} code=200 out=valid")
        if k in (254, 255, 256, 257):
            for via in ("grpc", "legacy"):
                for b in (k - 1, k, k + 1):
                    ops.append(f"query via={via} kind=responses ctx={cid} batch={b}")
                    ops.append(f"query via={via} kind=requests_by_ctx ctx={cid} batch={b}")
                ops.append(f"query via={via} kind=requests svc=svc prov={P2}")
            ops.append(f"query via=client kind=request req={req_id(0xC55, k, k, 1)}")
    ops += ["endblock dt=5000000000", f"withdraw owner={O1} prov=-", "endblock dt=5000000000"]
    return [("grid:longrun:258-batches", ops)]


def prefix_grid():
    """C05 / C13: two owners whose providers' addresses are byte-prefixes of each other (P, and P followed by one more
    byte), both with earnings: per-provider withdrawals by the wrong owner, then by the right one, then whole-owner ones."""
    O2 = "0a" * 20
    PQ = P1 + "01"
    out = []
    base = [genesis(), f"fund acct={O1} amt=1000000", f"fund acct={O2} amt=1000000", f"fund acct={C1} amt=100000",
            f"define name=svc author={O1} schema=ok",
            f"bind svc=svc prov={P1} owner={O1} dep=10000 price=5stake promT=- promV=- qos=1",
            f"bind svc=svc prov={PQ} owner={O2} dep=10000 price=20stake promT=- promV=- qos=1",
            f"call tx={tx(0xC13)} idx=0 svc=svc provs={P1},{PQ} cons={C1} cap=100 timeout=2 super=0 rep=1 freq=2 total=2 input=ok",
            "endblock dt=5000000000",
            f"respond req={req_id(0xC13, 1, 1, 0)} prov={P1} code=200 out=valid",
            f"respond req={req_id(0xC13, 1, 1, 1)} prov={PQ} code=200 out=valid",
            "endblock dt=5000000000", "endblock dt=5000000000",
            f"respond req={req_id(0xC13, 2, 3, 1)} prov={PQ} code=200 out=valid",
            f"respond req={req_id(0xC13, 2, 3, 0)} prov={P1} code=200 out=valid"]
    orders = [[f"withdraw owner={O2} prov={P1}", f"withdraw owner={O1} prov={PQ}", f"withdraw owner={O1} prov={P1}", f"withdraw owner={O2} prov={PQ}"],
              [f"withdraw owner={O1} prov={PQ}", f"withdraw owner={O2} prov={P1}", f"withdraw owner={O2} prov=-", f"withdraw owner={O1} prov=-"],
              [f"withdraw owner={O1} prov=-", f"withdraw owner={O2} prov={P1}", f"withdraw owner={O2} prov={PQ}"]]
    for i, o in enumerate(orders):
        out.append((f"grid:prefix:withdraw{i}", base + o + ["endblock dt=5000000000"]))
    # an owner that is its own provider and owns a second provider as well (the ordinary deployment: provider = owner);
    # both earn in both orders, the owner has a withdrawal address, then per-provider and whole-owner withdrawals
    W = "0c" * 20
    self_base = [genesis(), f"fund acct={O1} amt=1000000", f"fund acct={C1} amt=100000",
                 f"define name=svc author={O1} schema=ok",
                 f"bind svc=svc prov={O1} owner={O1} dep=10000 price=5stake promT=- promV=- qos=1",
                 f"bind svc=svc prov={P1} owner={O1} dep=10000 price=20stake promT=- promV=- qos=1",
                 f"setwd owner={O1} addr={W}",
                 f"call tx={tx(0xC14)} idx=0 svc=svc provs={P1},{O1} cons={C1} cap=100 timeout=2 super=0 rep=1 freq=2 total=2 input=ok",
                 "endblock dt=5000000000"]
    for i, first in enumerate([0, 1]):
        who = [P1, O1]
        h = self_base + [
            f"respond req={req_id(0xC14, 1, 1, first)} prov={who[first]} code=200 out=valid",
            f"respond req={req_id(0xC14, 1, 1, 1 - first)} prov={who[1 - first]} code=200 out=valid",
            "endblock dt=5000000000", "endblock dt=5000000000",
            f"respond req={req_id(0xC14, 2, 3, 1 - first)} prov={who[1 - first]} code=200 out=valid",
            f"withdraw owner={O1} prov={who[first]}",
            f"respond req={req_id(0xC14, 2, 3, first)} prov={who[first]} code=200 out=valid",
            f"withdraw owner={O1} prov=-", "endblock dt=5000000000"]
        out.append((f"grid:prefix:self-owned{i}", h))
    return out


def boundary_grid():
    """C20: boundary-shaped messages that pass (or just fail) stateless validation, each sent once to the handler in a
    state with a binding, a running repeated context and a pending request: empty coin lists, zero and maximal numeric
    fields, maximal and over-long provider lists, absent optional fields."""
    provs10 = ",".join([P1, P2] + [("%02x" % (0x70 + i)) * 20 for i in range(8)])
    provs11 = provs10 + "," + "7f" * 20
    cid = ctx_id(0xC20)
    r0 = req_id(0xC20, 1, 1, 0)
    big = "57896044618658097711785492504343953926634992332820282019728792003956564819967"
    pre = prelude(two_providers=True) + [
        f"call tx={tx(0xC20)} idx=0 svc=svc provs={P1},{P2} cons={C1} cap=10 timeout=3 super=0 rep=1 freq=5 total=-1 input=ok",
        "endblock dt=5000000000"]
    msgs = [
        f"call tx={tx(0xC21)} idx=0 svc=svc provs={P1} cons={C1} cap=- timeout=3 super=0 rep=0 freq=0 total=0 input=ok",
        f"call tx={tx(0xC22)} idx=0 svc=svc provs={P1} cons={C1} cap=0 timeout=3 super=0 rep=0 freq=0 total=0 input=ok",
        f"call tx={tx(0xC23)} idx=0 svc=svc provs={provs10} cons={C1} cap=10 timeout=3 super=0 rep=0 freq=0 total=0 input=ok",
        f"call tx={tx(0xC24)} idx=0 svc=svc provs={provs11} cons={C1} cap=10 timeout=3 super=0 rep=0 freq=0 total=0 input=ok",
        f"call tx={tx(0xC25)} idx=0 svc=svc provs=- cons={C1} cap=10 timeout=3 super=0 rep=0 freq=0 total=0 input=ok",
        f"call tx={tx(0xC26)} idx=9223372036854775807 svc=svc provs={P1} cons={C1} cap={big} timeout=100 super=1 rep=1 freq=4611686018427387904 total=9223372036854775807 input=ok",
        f"call tx={tx(0xC27)} idx=0 svc=svc provs={P1} cons={C1} cap=10 timeout=0 super=0 rep=1 freq=0 total=-1 input=ok",
        f"call tx={tx(0xC28)} idx=0 svc=svc provs={P1} cons={C1} cap=10 timeout=1 super=0 rep=1 freq=0 total=0 input=ok",
        f"call tx={tx(0xC29)} idx=0 svc=svc provs={P1} cons=- cap=10 timeout=1 super=0 rep=0 freq=0 total=0 input=ok",
        f"bind svc=svc prov={'44' * 20} owner={O1} dep=- price=5stake promT=- promV=- qos=1",
        f"bind svc=svc prov={'45' * 20} owner={O1} dep=0 price=5stake promT=- promV=- qos=1",
        f"bind svc=svc prov={'46' * 20} owner={O1} dep=10000 price=- promT=- promV=- qos=1",
        f"bind svc=svc prov={'47' * 20} owner={O1} dep=10000 price=0stake promT=- promV=- qos=0",
        f"bind svc=svc prov={'48' * 20} owner={O1} dep=10000 price=5stake promT=- promV=- qos=18446744073709551615",
        f"bind svc=svc prov=- owner={O1} dep=10000 price=5stake promT=- promV=- qos=1",
        # machine-integer boundaries: price x multiple (200) around 2^63, prices and deposits at 2^63 and 2^64
        f"bind svc=svc prov={'49' * 20} owner={O1} dep=10000 price=46116860184273879stake promT=- promV=- qos=1",
        f"bind svc=svc prov={'4a' * 20} owner={O1} dep=10000 price=46116860184273880stake promT=- promV=- qos=1",
        f"bind svc=svc prov={'4b' * 20} owner={O1} dep=10000 price=9223372036854775807stake promT=- promV=- qos=1",
        f"bind svc=svc prov={'4c' * 20} owner={O1} dep=10000 price=9223372036854775808stake promT=- promV=- qos=1",
        f"bind svc=svc prov={'4d' * 20} owner={O1} dep=9223372036854775808 price=5stake promT=- promV=- qos=1",
        f"bind svc=svc prov={'4e' * 20} owner={O1} dep=18446744073709551616 price=18446744073709551616stake promT=- promV=- qos=1",
        f"update svc=svc prov={P1} owner={O1} dep=- price=92233720368547758080stake promT=- promV=- qos=0",
        f"update svc=svc prov={P1} owner={O1} dep=- price=- promT=- promV=- qos=0",
        f"update svc=svc prov={P1} owner={O1} dep=0 price=- promT=- promV=- qos=0",
        f"disable svc=svc prov={P2} owner={O1}",
        f"enable svc=svc prov={P2} owner={O1} dep=-",
        f"disable svc=svc prov={P2} owner={O1}",
        f"enable svc=svc prov={P2} owner={O1} dep=0",
        f"updatectx ctx={cid} cons={C1} provs=- cap=- timeout=0 freq=0 total=0",
        f"updatectx ctx={cid} cons={C1} provs={provs10} cap=- timeout=0 freq=0 total=0",
        f"updatectx ctx={cid} cons={C1} provs={provs11} cap=- timeout=0 freq=0 total=0",
        f"updatectx ctx={cid} cons={C1} provs=- cap=0 timeout=0 freq=0 total=0",
        f"updatectx ctx={cid} cons={C1} provs=- cap={big} timeout=100 freq=4611686018427387904 total=9223372036854775807",
        f"respond req={r0} prov={P1} code=200 out=absent",
        f"respond req={r0} prov={P1} code=400 out=valid",
        f"respond req={r0} prov=- code=200 out=valid",
        f"respond req={r0} prov={P1} code=500 out=absent",
        f"setwd owner={O1} addr=-",
        f"setwd owner=- addr={C1}",
        f"withdraw owner={O1} prov=-",
        f"withdraw owner={C1} prov=-",
        f"withdraw owner=- prov=-",
        f"define name=- author={O1} schema=ok",
        f"define name={'a' * 70} author={O1} schema=ok",
        f"define name={'a' * 71} author={O1} schema=ok",
        f"define name=svc2 author=- schema=ok",
        f"pause ctx={cid} cons=-", f"start ctx={cid} cons=-", f"kill ctx={cid} cons=-",
        f"refund svc=svc prov={P2} owner={O1}",
    ]
    out = []
    # each message alone after the prelude (so that an earlier one cannot mask it), and all of them in one history
    for i, m in enumerate(msgs):
        out.append((f"grid:boundary:{i}", pre + [m, "endblock dt=5000000000", "endblock dt=5000000000"]))
    out.append(("grid:boundary:all", pre + msgs + ["endblock dt=5000000000"] * 6))
    return out


def genesis_grid():
    """C19: export points chosen to contain what the preparation and the import must get right: a provider that is its
    own owner and has set a withdrawal address, an owner whose withdrawal address is itself, earnings and a pending
    request side by side, a provider address that is not 20 bytes long with earnings, several contexts in different
    states, a refunded (empty) deposit, a binding with promotions."""
    out = []
    O2 = "0a" * 20
    SELF = "0b" * 20                     # provider = owner
    P19 = "22" * 19
    for variant in ("prep", "noprep"):
        ops = [genesis(), f"fund acct={O1} amt=1000000", f"fund acct={O2} amt=1000000", f"fund acct={SELF} amt=1000000",
               f"fund acct={C1} amt=100000", f"fund acct={'04' * 20} amt=100000",
               f"define name=svc author={O1} schema=ok", f"define name=a-b author={O2} schema=ok",
               f"bind svc=svc prov={P1} owner={O1} dep=10000 price=5stake promT=- promV=- qos=1",
               f"bind svc=svc prov={SELF} owner={SELF} dep=10000 price=7stake promT=- promV=2:500000000000000000 qos=1",
               f"bind svc=a-b prov={P19} owner={O2} dep=10000 price=30stake promT=1000000000000:2000000000000:500000000000000000 promV=- qos=1",
               f"bind svc=a-b prov={P2} owner={O2} dep=10000 price=3stake promT=- promV=- qos=1",
               f"setwd owner={SELF} addr={'05' * 20}", f"setwd owner={O1} addr={C1}", f"setwd owner={O1} addr={O1}",
               f"call tx={tx(0xC19)} idx=0 svc=svc provs={P1},{SELF} cons={C1} cap=100 timeout=3 super=0 rep=1 freq=4 total=5 input=ok",
               f"call tx={tx(0xC19)} idx=1 svc=a-b provs={P19},{P2} cons={'04' * 20} cap=100 timeout=2 super=0 rep=0 freq=0 total=0 input=ok",
               f"call tx={tx(0xC1A)} idx=0 svc=svc provs={P1} cons={C1} cap=100 timeout=2 super=1 rep=1 freq=2 total=-1 input=ok",
               "endblock dt=5000000000",
               f"respond req={req_id(0xC19, 1, 1, 1)} prov={SELF} code=200 out=valid",
               f"respond req={ctx_id(0xC19, 1)}{'%016x%016x%04x' % (1, 1, 0)} prov={P19} code=200 out=valid",
               f"pause ctx={ctx_id(0xC1A)} cons={C1}",
               f"disable svc=a-b prov={P2} owner={O2}",
               "endblock dt=1728000000000000",
               f"refund svc=a-b prov={P2} owner={O2}",
               "endblock dt=5000000000"]
        if variant == "prep":
            ops.append("prep")
        ops += ["export", "validate", "jsonrt", "reimport"]
        out.append((f"grid:genesis:{variant}", ops))
    # the export point falls in the middle of batches: one context still running, one paused by its consumer, one
    # killed — all three with unanswered paid requests — and a provider bound to two services with earnings
    ops = [genesis(), f"fund acct={O1} amt=1000000", f"fund acct={C1} amt=100000", f"fund acct={'04' * 20} amt=100000",
           f"define name=svc author={O1} schema=ok", f"define name=a-b author={O1} schema=ok",
           f"bind svc=svc prov={P1} owner={O1} dep=10000 price=5stake promT=- promV=- qos=1",
           f"bind svc=a-b prov={P1} owner={O1} dep=10000 price=4stake promT=- promV=- qos=1",
           f"bind svc=svc prov={P2} owner={O1} dep=10000 price=7stake promT=- promV=- qos=1"]
    for k in (0, 1, 2):
        ops.append(f"call tx={tx(0xC1B)} idx={k} svc=svc provs={P1},{P2} cons={C1} cap=100 timeout=10 super=0 rep=1 freq=12 total=3 input=ok")
    ops.append(f"call tx={tx(0xC1B)} idx=3 svc=a-b provs={P1} cons={'04' * 20} cap=100 timeout=10 super=0 rep=0 freq=0 total=0 input=ok")
    ops += ["endblock dt=5000000000",
            f"respond req={req_id(0xC1B, 1, 1, 0, 0)} prov={P1} code=200 out=valid",
            f"respond req={req_id(0xC1B, 1, 1, 0, 3)} prov={P1} code=200 out=valid",
            f"pause ctx={ctx_id(0xC1B, 1)} cons={C1}",
            f"kill ctx={ctx_id(0xC1B, 2)} cons={C1}",
            "endblock dt=5000000000",
            "prep", "export", "validate", "jsonrt", "reimport"]
    out.append(("grid:genesis:inflight", ops))
    # the chain goes on after a zero-height restart (op `restart`): the contexts come back paused and are started again,
    # batches are issued from the imported bindings and price terms, the rebuilt ownership indexes serve an owner-wide
    # withdrawal, a binding is disabled and refunded on the new chain, and a second restart follows
    base = ops[:-5]
    cont = ["restart"]
    for k in (0, 1, 2):
        cont.append(f"start ctx={ctx_id(0xC1B, k)} cons={C1}")
    cont += [f"start ctx={ctx_id(0xC1B, 3)} cons={'04' * 20}",
             "endblock dt=5000000000",
             f"respond req={req_id(0xC1B, 2, 3, 0, 0)} prov={P1} code=200 out=valid",
             f"respond req={req_id(0xC1B, 2, 3, 1, 0)} prov={P2} code=200 out=malformed",
             f"respond req={req_id(0xC1B, 2, 3, 0, 3)} prov={P1} code=200 out=valid",
             f"setwd owner={O1} addr={'05' * 20}",
             f"withdraw owner={O1} prov=-",
             f"bind svc=a-b prov={P2} owner={O1} dep=10000 price=3stake promT=- promV=- qos=1",
             f"disable svc=svc prov={P2} owner={O1}",
             f"call tx={tx(0xC1C)} idx=0 svc=svc provs={P1},{P2} cons={C1} cap=100 timeout=2 super=0 rep=0 freq=0 total=0 input=ok",
             "endblock dt=5000000000"]
    cont += ["endblock dt=5000000000"] * 12
    cont += [f"withdraw owner={O1} prov={P1}", "endblock dt=1728000000000000",
             f"refund svc=svc prov={P2} owner={O1}", "restart",
             f"start ctx={ctx_id(0xC1B, 0)} cons={C1}", "endblock dt=5000000000", "endblock dt=5000000000",
             "prep", "export", "validate", "jsonrt", "reimport"]
    out.append(("grid:genesis:restart", base + cont))
    # shapes of state at the export point that the restarted chain must get right (fifteenth round of seeded changes):
    # an owner whose withdrawal address is the deposit custody account, with an earning of its provider at the export
    # point; a binding disabled — and re-priced while disabled — at the export point, enabled on the new chain without and
    # with a top-up; a refunded binding enabled again on the new chain; a provider with two bindings
    ops = [genesis(), f"fund acct={O1} amt=1000000", f"fund acct={C1} amt=100000",
           f"define name=svc author={O1} schema=ok", f"define name=a-b author={O1} schema=ok",
           f"bind svc=svc prov={P1} owner={O1} dep=10000 price=5stake promT=- promV=- qos=1",
           f"bind svc=a-b prov={P1} owner={O1} dep=10000 price=4stake promT=- promV=- qos=1",
           f"bind svc=svc prov={P2} owner={O1} dep=6000 price=30stake promT=- promV=- qos=1",
           f"bind svc=a-b prov={P2} owner={O1} dep=6000 price=3stake promT=- promV=- qos=1",
           f"setwd owner={O1} addr={DEPOSIT}",
           f"call tx={tx(0xC1D)} idx=0 svc=svc provs={P1},{P2} cons={C1} cap=100 timeout=3 super=0 rep=0 freq=0 total=0 input=ok",
           "endblock dt=5000000000",
           f"respond req={req_id(0xC1D, 1, 1, 0)} prov={P1} code=200 out=valid",
           f"disable svc=svc prov={P2} owner={O1}",
           f"update svc=svc prov={P2} owner={O1} dep=- price=50stake promT=- promV=- qos=0",
           f"disable svc=a-b prov={P2} owner={O1}",
           "endblock dt=1728000000000000",
           f"refund svc=a-b prov={P2} owner={O1}",
           "endblock dt=5000000000",
           "restart",
           f"enable svc=svc prov={P2} owner={O1} dep=-",          # 6000 < 50 x 200: must be rejected on the new chain too
           f"enable svc=a-b prov={P2} owner={O1} dep=-",          # refunded: nothing left
           f"enable svc=svc prov={P2} owner={O1} dep=4000",
           f"enable svc=a-b prov={P2} owner={O1} dep=6000",
           f"call tx={tx(0xC1E)} idx=0 svc=svc provs={P1},{P2} cons={C1} cap=100 timeout=2 super=0 rep=0 freq=0 total=0 input=ok",
           f"call tx={tx(0xC1E)} idx=1 svc=a-b provs={P1},{P2} cons={C1} cap=100 timeout=2 super=0 rep=0 freq=0 total=0 input=ok",
           "endblock dt=5000000000",
           f"respond req={req_id(0xC1E, 1, 4, 0, 0)} prov={P1} code=200 out=valid",
           f"respond req={req_id(0xC1E, 1, 4, 1, 1)} prov={P2} code=200 out=malformed",
           "endblock dt=5000000000", "endblock dt=5000000000", "endblock dt=5000000000",
           f"setwd owner={O1} addr={O1}",
           f"withdraw owner={O1} prov=-",
           f"disable svc=svc prov={P1} owner={O1}", f"disable svc=a-b prov={P1} owner={O1}",
           "endblock dt=1728000000000000",
           f"refund svc=svc prov={P1} owner={O1}", f"refund svc=a-b prov={P1} owner={O1}",
           "restart", "endblock dt=5000000000",
           "prep", "export", "validate", "jsonrt", "reimport"]
    out.append(("grid:genesis:restart-shapes", ops))
    return out


GRIDS = {
    "lifecycle": lambda: lifecycle_grid() + lifecycle_grid(T=2, F=2, total=-1, horizon=7),
    "respond": respond_grid,
    "module": module_grid,
    "query": query_grid,
    "pricing": pricing_grid,
    "boundary": boundary_grid,
    "genesis": genesis_grid,
    "deposit": deposit_grid,
    "longrun": longrun_grid,
    "prefix": prefix_grid,
}

# which grids each property runs
FOR_PROPERTY = {
    "C01": ["respond", "pricing"], "C05": ["prefix"], "C13": ["prefix", "genesis"], "C02": ["respond", "lifecycle", "pricing", "genesis"], "C04": ["respond", "genesis"], "C08": ["respond", "module"], "C14": ["deposit", "genesis"], "C03": ["deposit", "genesis"],
    "C09": ["lifecycle", "genesis"], "C10": ["lifecycle"], "C11": ["lifecycle", "respond", "genesis"], "C12": ["module", "respond", "genesis"],
    "C16": ["lifecycle", "respond", "longrun", "genesis"], "C06": ["respond", "pricing", "module"], "C18": ["respond", "query", "longrun"], "C20": ["lifecycle", "boundary", "pricing"], "C19": ["genesis"],
    "C17": ["query", "longrun"], "C15": ["query", "genesis"], "C07": ["pricing", "respond"],
}
