#!/bin/bash
# usage: try_harmless.sh H9 H10 …  — applies seeded/harmless/<id>/patch.diff to /repo transiently, runs all 20 quick checks, restores
export GOFLAGS=-mod=mod GOPROXY=off GOSUMDB=off GOTOOLCHAIN=local
cd /verif
for id in "$@"; do
  git -C /repo apply /verif/seeded/harmless/$id/patch.diff || { echo "$id: patch does not apply"; continue; }
  bad=""
  for p in C01 C02 C03 C04 C05 C06 C07 C08 C09 C10 C11 C12 C13 C14 C15 C16 C17 C18 C19 C20; do
    out=$(./check $p quick 2>&1 | grep -v '^KNOWN-FINDING'); rc=$?
    if echo "$out" | grep -q '^VIOLATION'; then bad="$bad $p"; echo "$id $p: $(echo "$out" | grep -B1 '^VIOLATION' | head -2 | cut -c1-400 | tr '\n' ' ')"; fi
  done
  git -C /repo checkout -- .
  echo "$id: alarms:${bad:- none}"
done
git checkout -- evidence lean/ServiceModel/Keys/Generated.lean 2>/dev/null
(cd harness && go build -o bin/trace ./cmd/trace && go build -o bin/factgen ./cmd/factgen) 2>/dev/null
echo HARMLESS-DONE
