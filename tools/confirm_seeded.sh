#!/bin/bash
# usage: confirm_seeded.sh <id> <dir for the demo test: . or keeper>
# confirms in a fresh scratch worktree: demo passes without the patch, fails with it, the existing suite passes with it
export GOFLAGS=-mod=mod GOPROXY=off GOSUMDB=off GOTOOLCHAIN=local
ID=$1; DIR=${2:-.}; S=/verif/seeded/$ID; W=/tmp/confirm-$ID
git -C /repo worktree add -q --detach $W HEAD || exit 2
T=$(ls $S/*_test.go.txt | head -1); N=$(basename ${T%.txt})
cp $T $W/$DIR/$N
cd $W
go test -vet=off -count=1 -run "${3:-Seeded}" ./$DIR > /tmp/confirm-$ID.without 2>&1; A=$?
git apply $S/patch.diff || { echo "patch does not apply"; }
go test -vet=off -count=1 -run "${3:-Seeded}" ./$DIR > /tmp/confirm-$ID.with 2>&1; B=$?
rm $W/$DIR/$N
go build ./... && go test -vet=off -count=1 ./... > /tmp/confirm-$ID.suite 2>&1; C=$?
echo "$ID demo_without_patch_exit=$A demo_with_patch_exit=$B existing_suite_with_patch_exit=$C"
cd /; git -C /repo worktree remove --force $W
