#!/bin/bash
# usage: ingest_abc.sh <round> <group letter> <Cxx>   copy /tmp/mut<round>-<g>-out/{A,B,C} to seeded/<Cxx>{A,B,C}<round>, confirm, try the check
export GOFLAGS=-mod=mod GOPROXY=off GOSUMDB=off GOTOOLCHAIN=local
n=$1; g=$2; pid=$3
for d in /tmp/mut$n-$g-out/[ABC]; do
  x=$(basename $d); id=${pid}${x}$n; S=/verif/seeded/$id; mkdir -p $S
  cp $d/patch.diff $S/patch.diff; cp $d/meta.json $S/meta.json
  cp $d/demo_test.go.txt $S/seeded_$(echo $id | tr 'A-Z' 'a-z')_test.go.txt
  dir=$(python3 -c "import json;print(json.load(open('$S/meta.json')).get('demo_dir','.'))")
  bash /verif/tools/confirm_seeded.sh $id "$dir" "Mut$n$pid$x" 2>&1 | tail -1
  echo "--- check $id"; bash /verif/tools/try_mutant.sh $S/patch.diff $pid 2>&1 | grep -v "^KNOWN-FINDING\|^--- " | tail -3 | cut -c1-420
done
