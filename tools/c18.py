#!/usr/bin/env python3
"""C18 — identifiers and store keys are unambiguous: the pipeline of the property.

    run(tier, seed) -> {"broken": [(name, detail), ...],
                        "violations": [{"what": ..., "replay_lines": [...]}, ...],
                        "stats": {...}}

Steps (each failure is a *broken tie* unless the failing-input search turns it into a
concrete violation):
  1. build and run `factgen`: types/keys.go, types/invocation.go, keeper/*.go  ->  lean/ServiceModel/Keys/Generated.lean
  2. `lake build driver` and `lake build ServiceModel.Properties.C18` (theorems about the generated layouts),
     forbidden-token scan, `#print axioms` of every property theorem
  3. differentials: `trace keys` vs `driver keys`, `trace ids` vs `driver ids` on generated lines
  4. `trace keysearch` (always; it is cheap): collisions of REAL keys, inexact REAL scans, id round trips;
     what it finds within the hypotheses becomes a violation with replay lines.

Environment overrides (used to test the machinery on mutated copies of the repository):
  C18_REPO     root of the service module read by factgen        (default /repo)
  C18_HARNESS  harness module whose go.mod points at that root    (default /verif/harness)
  C18_LEAN     Lean project                                       (default /verif/lean)

CLI: python3 tools/c18.py quick|thorough [seed]
"""
import json
import os
import re
import subprocess
import sys
import tempfile
import time

ALLOWED_AXIOMS = {"propext", "Classical.choice", "Quot.sound"}
FORBIDDEN = re.compile(r"\bsorry\b|\badmit\b|^axiom |native_decide|bv_decide|implemented_by|\bunsafe\b|maxHeartbeats 0", re.M)


_ROOT = os.path.dirname(os.path.dirname(os.path.abspath(__file__)))


def _paths():
    return (os.environ.get("C18_REPO", os.environ.get("VERIF_REPO", "/repo")),
            os.environ.get("C18_HARNESS", os.path.join(_ROOT, "harness")),
            os.environ.get("C18_LEAN", os.path.join(_ROOT, "lean")))


def _goenv():
    env = dict(os.environ)
    env.update(GOFLAGS="-mod=mod", GOPROXY="off", GOSUMDB="off", GOTOOLCHAIN="local")
    return env


def _run(cmd, cwd=None, env=None, stdin=None, timeout=1800):
    p = subprocess.run(cmd, cwd=cwd, env=env, input=stdin, stdout=subprocess.PIPE, stderr=subprocess.PIPE,
                       universal_newlines=True, timeout=timeout)
    return p.returncode, p.stdout, p.stderr


def _tail(text, n=25):
    lines = [l for l in text.strip().splitlines() if not l.startswith("trace: ")]
    return "\n".join(lines[-n:])


def _lake(lean, targets):
    cmd = ["flock", ".lake-build.lock", "lake", "build"] + targets
    return _run(cmd, cwd=lean)


def _theorems(lean):
    src = open(os.path.join(lean, "ServiceModel/Properties/C18.lean")).read()
    return re.findall(r"^theorem\s+([A-Za-z0-9_']+)", src, re.M)


def _axioms(lean, names):
    """-> (bad: [(theorem, axioms)], error text)"""
    with tempfile.NamedTemporaryFile("w", suffix=".lean", delete=False) as f:
        f.write("import ServiceModel.Properties.C18\n")
        for n in names:
            f.write("#print axioms SM.C18.%s\n" % n)
        path = f.name
    env = dict(os.environ)
    env["LEAN_PATH"] = os.path.join(lean, ".lake/build/lib/lean")
    try:
        rc, out, err = _run(["lean", path], cwd=lean, env=env)
    finally:
        os.unlink(path)
    if rc != 0:
        return [], _tail(out + err)
    text = " ".join(out.split())
    bad, seen = [], 0
    for n in names:
        m = re.search(r"'SM\.C18\.%s' (does not depend on any axioms|depends on axioms: \[([^\]]*)\])" % re.escape(n), text)
        if not m:
            bad.append((n, "no #print axioms output"))
            continue
        seen += 1
        axs = set(a.strip() for a in (m.group(2) or "").split(",") if a.strip())
        if not axs <= ALLOWED_AXIOMS:
            bad.append((n, sorted(axs - ALLOWED_AXIOMS)))
    return bad, ""


def _differential(kind, trace, driver, seed, n, stats):
    """-> None if all lines agree, else (detail, replay_lines)"""
    rc, lines, err = _run([trace, "keygen", "-kind", kind, "-seed", str(seed), "-n", str(n), "-stats"])
    if rc != 0:
        return ("trace keygen failed: " + _tail(err), [])
    for l in err.splitlines():
        k, _, v = l.rpartition(" ")
        if k and v.isdigit():
            stats["inputs"][k] = stats["inputs"].get(k, 0) + int(v)
    rc1, go_out, go_err = _run([trace, kind], stdin=lines)
    rc2, lean_out, lean_err = _run([driver, kind], stdin=lines)
    inp, a, b = lines.splitlines(), go_out.splitlines(), lean_out.splitlines()
    stats["lines_" + kind] = stats.get("lines_" + kind, 0) + len(inp)
    for i, l in enumerate(inp):
        x = a[i] if i < len(a) else "<no answer: %s>" % _tail(go_err, 2)
        y = b[i] if i < len(b) else "<no answer: %s>" % _tail(lean_err, 2)
        if x != y:
            return ("seed %d line %d: `%s`: real code answers %s, Lean model answers %s" % (seed, i + 1, l, x, y), [l])
    if rc1 != 0 or rc2 != 0:
        return ("seed %d: trace %s exit %d, driver %s exit %d: %s %s" % (seed, kind, rc1, kind, rc2, _tail(go_err, 3), _tail(lean_err, 3)), [])
    return None


def _keysearch(trace):
    """-> (violations, summary line, error)"""
    rc, out, err = _run([trace, "keysearch", "-max", "2"])
    if rc not in (0, 1):
        return [], "", "trace keysearch exit %d: %s" % (rc, _tail(err))
    viols, cur, summary, outside = [], None, "", 0
    for l in out.splitlines():
        if l.startswith("DONE "):
            summary = l
        elif l.startswith("OUTSIDE-HYPOTHESES "):
            cur = None
            if " COUNT " in l:
                outside += int(l.rsplit(" ", 1)[1])
        elif l.startswith("  REPLAY "):
            if cur is not None:
                cur["replay_lines"].append(l[len("  REPLAY "):])
        elif l.startswith("COUNT "):
            cur = None
        elif l.strip():
            cur = {"what": l, "replay_lines": []}
            viols.append(cur)
    if rc == 1 and not viols:
        return [], summary, "trace keysearch exit 1 without a finding line"
    return viols, summary, ""


def run(tier="quick", seed=1):
    repo, harness, lean = _paths()
    broken, violations = [], []
    fallback = None
    stats = {"tier": tier, "seed": seed, "inputs": {}, "times": {}, "tie": "regenerated layouts + correspondence"}
    genv = _goenv()
    trace = os.path.join(harness, "bin/trace")
    factgen = os.path.join(harness, "bin/factgen")
    driver = os.path.join(lean, ".lake/build/bin/driver")

    # 1. translator
    t = time.time()
    rc, out, err = _run(["go", "build", "-o", "bin/factgen", "./cmd/factgen"], cwd=harness, env=genv)
    if rc != 0:
        broken.append(("factgen-build", _tail(out + err)))
    else:
        rc, out, err = _run([factgen, "-repo", repo, "-out", os.path.join(lean, "ServiceModel")])
        stats["factgen"] = out.strip()
        if rc != 0:
            # The translator is syntactic; a rewrite it does not recognise leaves Keys/Generated.lean as committed.
            # The tie then falls back to correspondence alone: the committed layouts must reproduce the REAL key and
            # id functions byte for byte on a larger generated sample, and the collision / scan search on the real
            # functions and the real keeper must find nothing. Only if that fails is the tie reported as broken.
            fallback = "the translator does not recognise the current source: " + _tail(err)
            stats["tie"] = "correspondence only (" + _tail(err, 3) + ")"
    rc, out, err = _run(["go", "build", "-tags", "verif", "-o", "bin/trace", "./cmd/trace"], cwd=harness, env=genv)
    have_trace = rc == 0
    if rc != 0:
        broken.append(("trace-build", _tail(out + err)))
    stats["times"]["go"] = round(time.time() - t, 1)

    # 2. Lean
    t = time.time()
    rc, out, err = _lake(lean, ["driver"])
    have_driver = rc == 0
    if rc != 0:
        broken.append(("lean-driver-build", _tail(out + err)))
    rc, out, err = _lake(lean, ["ServiceModel.Properties.C18"])
    proofs_ok = rc == 0
    if rc != 0:
        broken.append(("lean-proofs", "the property theorems do not check against the regenerated layouts:\n" + _tail(out + err, 40)))
    stats["times"]["lake"] = round(time.time() - t, 1)
    for root, _, files in os.walk(os.path.join(lean, "ServiceModel/Keys")):
        for fn in files:
            if fn.endswith(".lean") and FORBIDDEN.search(open(os.path.join(root, fn)).read()):
                broken.append(("forbidden-token", os.path.join(root, fn)))
    for fn in ["ServiceModel/Properties/C18.lean", "ServiceModel/Driver/KeysMode.lean"]:
        if FORBIDDEN.search(open(os.path.join(lean, fn)).read()):
            broken.append(("forbidden-token", fn))
    names = _theorems(lean)
    stats["theorems"] = len(names)
    if proofs_ok:
        bad, e = _axioms(lean, names)
        if e:
            broken.append(("axioms", e))
        for n, axs in bad:
            broken.append(("axioms", "%s: %s" % (n, axs)))

    # 3. differentials
    t = time.time()
    if have_trace and have_driver:
        if tier == "quick":
            plan = [(seed, 5000)] if fallback is None else [(seed + i, 20000) for i in range(4)]
        else:
            plan = [(seed + i, 60000) for i in range(4)]
        for kind in ("keys", "ids"):
            for s, n in plan:
                r = _differential(kind, trace, driver, s, n, stats)
                if r is not None:
                    detail, replay = r
                    broken.append((kind + "-differential", detail))
                    stats.setdefault("differential_replay", []).extend(replay)
                    break
    stats["times"]["differential"] = round(time.time() - t, 1)

    # 4. failing-input search on the real code
    if have_trace:
        viols, summary, e = _keysearch(trace)
        stats["keysearch"] = summary
        if e:
            broken.append(("keysearch", e))
        stats["keysearch_findings"] = len(viols)
        # identifier findings first; at most 10 witnesses are passed on
        viols.sort(key=lambda v: 0 if v["what"].startswith("ID ") or " id=" in v["what"] else 1)
        violations.extend(viols[:10])

    if fallback is not None and (broken or violations or not (have_trace and have_driver)):
        # the correspondence does not hold either: report the translator failure too
        broken.insert(0, ("factgen", fallback))
    return {"broken": broken, "violations": violations, "stats": stats}


def main(argv):
    tier = argv[1] if len(argv) > 1 else "quick"
    seed = int(argv[2]) if len(argv) > 2 else 1
    res = run(tier, seed)
    st = res["stats"]
    print("C18 %s seed=%d: %d theorems, %d key lines, %d id lines, times %s" % (
        tier, seed, st.get("theorems", 0), st.get("lines_keys", 0), st.get("lines_ids", 0), json.dumps(st["times"])))
    print("  factgen:   %s" % st.get("factgen", "-"))
    print("  keysearch: %s" % st.get("keysearch", "-"))
    lens = sorted((k, v) for k, v in st["inputs"].items() if k.startswith("addrlen:"))
    if lens:
        print("  address lengths sampled: %d..%d (min count %d)" % (int(lens[0][0][8:]), int(lens[-1][0][8:]), min(v for _, v in lens)))
    print("  functions sampled: %d" % len([k for k in st["inputs"] if k.startswith("fn:")]))
    for name, detail in res["broken"]:
        print("BROKEN-TIE %s: %s" % (name, detail))
    for v in res["violations"]:
        print("FOUND %s" % v["what"])
        for l in v["replay_lines"]:
            print("    replay: %s" % l)
    if not res["broken"] and not res["violations"]:
        print("  ok: nothing broken, nothing found")
    return 1 if res["broken"] or res["violations"] else 0


if __name__ == "__main__":
    sys.exit(main(sys.argv))
