# Per-property configuration of the check pipeline: generator profiles, monitors (names as in
# lean/ServiceModel/Inv/Monitors.lean `allMonitors`), correspondence projection, Lean modules.

ESCROW = "74c7ffcfeedebd260205d44c76dd80156cdef60e"
DEPOSIT = "c1d67985396d4d8517d4a39ce639463c6a08e8ea"
COLLECTOR = "f1829676db577682e944fc3493d451b67ff3e29f"


def kinds(*ks):
    ks = set(ks)
    return lambda line: line.split(" ", 1)[0] in ks


def acct_lines(accts):
    return lambda line: line.startswith("A ") and line.split(" ")[1] in accts


def any_of(*preds):
    return lambda line: any(p(line) for p in preds)


def eff(*names, touching=None):
    names = set(names)

    def f(line):
        parts = line.split(" ")
        if parts[1] not in names:
            return False
        if touching and parts[1] == "transfer":
            return parts[2] in touching or parts[3] in touching
        return True
    return f


PROPS = {
    "C01": dict(profiles=["money", "mixed", "modsvc"], monitors=["escrowBacked", "conservation", "settlement", "batchDebit"],
                state=any_of(acct_lines({ESCROW}), kinds("RQ", "AI", "EF")), effects=eff("transfer", touching={ESCROW}), errnames=False),
    "C02": dict(profiles=["money", "mixed", "lifecycle", "genesis", "modsvc"], monitors=["settlement", "batchDebit", "conservation", "escrowBacked", "respondLaw"],
                state=kinds("A", "RQ", "AI", "EF", "OE", "RS"), effects=eff("transfer", "slash"), errnames=False),
    "C03": dict(profiles=["bindings", "mixed", "modsvc", "genesis"], monitors=["depositBacked", "depositLaw", "supplyLaw", "conservation"],
                state=kinds("A", "B", "S"), effects=eff("transfer", "slash"), errnames=True),
    "C04": dict(profiles=["bindings", "money", "genesis", "modsvc"], monitors=["slashLaw", "supplyLaw", "depositBacked"],
                state=kinds("B", "S"), effects=eff("slash"), errnames=False),
    "C05": dict(profiles=["authority", "mixed", "modsvc"], monitors=["authority", "conservation"],
                state=kinds("A"), effects=eff("transfer"), errnames=True),
    "C06": dict(profiles=["money", "lifecycle"], monitors=["issueLaw", "batchDebit", "lifecycle"],
                state=kinds("RQ", "CX", "AB", "AI"), effects=eff("ev", "transfer"), errnames=False),
    "C07": dict(profiles=["money", "bindings"], monitors=["issueLaw", "volumeLaw"],
                state=kinds("RQ", "VO", "PR", "B"), effects=eff("transfer"), errnames=False),
    "C08": dict(profiles=["lifecycle", "money", "modules"], monitors=["respondLaw", "rejectedNoChange", "settlement", "requests"],
                state=kinds("AI", "AB", "RS", "RQ"), effects=eff("transfer", "slash"), errnames=True),
    "C09": dict(profiles=["lifecycle", "modules", "genesis"], monitors=["lifecycle", "restartCtxs"],
                state=kinds("CX"), effects=eff("ev", "statecb"), errnames=True),
    "C10": dict(profiles=["lifecycle"], monitors=["queues", "lifecycle", "cadence", "restartCtxs"],
                state=kinds("CX", "NQ", "XQ", "NH", "XH"), effects=eff("ev"), errnames=False),
    "C11": dict(profiles=["lifecycle", "mixed", "genesis"], monitors=["queues", "requests", "restartCtxs"],
                state=kinds("CX", "NQ", "XQ", "NH", "XH", "AI", "AB", "RQ"), effects=eff("ev"), errnames=False),
    "C12": dict(profiles=["modules", "lifecycle", "genesis"], monitors=["counts", "callbacks", "restartCtxs"],
                state=kinds("CX", "RQ", "RS"), effects=eff("respcb", "statecb", "ev"), errnames=False),
    "C13": dict(profiles=["money", "mixed", "genesis", "modsvc"], monitors=["ownerEarnings", "withdrawLaw", "conservation"],
                state=kinds("EF", "OE", "WD", "A", "OW"), effects=eff("transfer"), errnames=True),
    "C14": dict(profiles=["bindings", "modsvc", "genesis"], monitors=["minDep", "slashLaw"],
                state=kinds("B", "PR"), effects=eff("slash"), errnames=True),
    "C15": dict(profiles=["bindings", "authority", "genesis"], monitors=["indexes", "stability", "queryExact"],
                state=kinds("Q", "D", "B", "OB", "OW", "PO", "PR"), effects=eff(), errnames=True),
    "C16": dict(profiles=["lifecycle", "mixed", "genesis"], monitors=["requests", "counts", "lifecycle", "restartCtxs"],
                state=kinds("CX", "RQ", "RS", "AI", "AB"), effects=eff("ev"), errnames=False),
    "C17": dict(profiles=["queries"], monitors=["queryExact"],
                state=kinds("Q", "D", "B", "WD", "CX", "RQ", "RS", "AB", "EF", "OE"), effects=eff(), errnames=True),
    "C18": dict(profiles=["mixed", "lifecycle"], monitors=["issueLaw", "requests", "queryExact"],
                state=kinds("Q", "CX", "RQ", "RS", "AI", "AB", "NQ", "XQ", "NH", "XH"), effects=eff(), errnames=False),
    "C19": dict(profiles=["genesis"], monitors=["genesisLaw", "escrowBacked", "indexes", "requests", "restartCtxs"], state=lambda l: True,
                effects=eff("transfer"), errnames=False),
    "C20": dict(profiles=["mixed", "authority", "modsvc"], monitors=["noPanic"], state=lambda l: True,
                effects=lambda l: True, errnames=False),
}

ALL_IDS = sorted(PROPS)
