#!/bin/bash
# usage: seedsweep.sh "<seeds>" [props…] — runs ./check <prop> quick for every seed on the CURRENT tree,
# prints one line per non-OK run; restores evidence afterwards (evidence must come from a seed-1 run).
export GOFLAGS=-mod=mod GOPROXY=off GOSUMDB=off GOTOOLCHAIN=local
cd /verif
seeds="$1"; shift
props="${@:-C01 C02 C03 C04 C05 C06 C07 C08 C09 C10 C11 C12 C13 C14 C15 C16 C17 C18 C19 C20}"
L=$(mktemp -d /var/tmp/seedsweep.XXXX)
n=0; bad=0
for s in $seeds; do
  for p in $props; do
    n=$((n+1))
    VERIF_SEED=$s ./check $p quick > $L/$p.$s.log 2>&1; rc=$?
    if [ $rc -ne 0 ] || grep -q '^VIOLATION' $L/$p.$s.log; then bad=$((bad+1)); echo "seed=$s $p rc=$rc: $(grep -m1 '^VIOLATION' $L/$p.$s.log)"; cp $L/$p.$s.log /verif/replays/seedsweep-$p-$s.log 2>/dev/null; fi
  done
done
git checkout -- evidence 2>/dev/null
echo "runs=$n not-ok=$bad"
rm -rf $L
