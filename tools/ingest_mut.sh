#!/bin/bash
# usage: ingest_mut.sh <round> <group letter>   copy /tmp/mut<round>-<g>-out/<Cxx> to seeded/<Cxx>M<round>, confirm, try the check
export GOFLAGS=-mod=mod GOPROXY=off GOSUMDB=off GOTOOLCHAIN=local
n=$1; g=$2
for d in /tmp/mut$n-$g-out/C*; do
  id=$(basename $d); S=/verif/seeded/${id}M$n; mkdir -p $S
  cp $d/patch.diff $S/patch.diff; cp $d/meta.json $S/meta.json
  cp $d/demo_test.go.txt $S/seeded_$(echo ${id}m$n | tr 'A-Z' 'a-z')_test.go.txt
  dir=$(python3 -c "import json;print(json.load(open('$S/meta.json')).get('demo_dir','.'))")
  bash /verif/tools/confirm_seeded.sh ${id}M$n "$dir" "Mut$n$id" 2>&1 | tail -1
  echo "--- check $id"; bash /verif/tools/try_mutant.sh $S/patch.diff $id 2>&1 | grep -v "^KNOWN-FINDING\|^--- " | tail -3 | cut -c1-420
done
