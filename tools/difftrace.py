#!/usr/bin/env python3
"""Compare a harness trace (real code) with the model's trace, step by step.
usage: difftrace.py GO.trace LEAN.trace [--all]
Prints the first differing step (op line, differing lines) and exits 1; exit 0 if equal."""
import sys

def blocks(path):
    cur = None
    with open(path) as f:
        for line in f:
            line = line.rstrip('\n')
            if line.startswith('OP ') and '=' in line or line.startswith('OP endblock') or line.startswith('OP genesis'):
                cur = {'op': line[3:], 'R': None, 'E': [], 'S': []}
            elif cur is None:
                continue
            elif line == 'END':
                yield cur
                cur = None
            elif line.startswith('R '):
                cur['R'] = line
            elif line.startswith('E '):
                cur['E'].append(line)
            else:
                cur['S'].append(line)

def main():
    a, b = sys.argv[1], sys.argv[2]
    ga, gb = blocks(a), blocks(b)
    i = 0
    while True:
        x = next(ga, None); y = next(gb, None)
        if x is None and y is None:
            return 0
        if x is None or y is None:
            print(f"step {i}: one trace ended early (go={'end' if x is None else x['op']}, lean={'end' if y is None else y['op']})")
            return 1
        i += 1
        diffs = []
        rx, ry = x['R'], y['R']
        if rx.startswith('R panic') and ry.startswith('R panic'):
            rx = ry = 'R panic'
        if rx != ry:
            diffs.append(f"  go:   {x['R']}\n  lean: {y['R']}")
        if x['E'] != y['E']:
            diffs.append("  effects go:   " + ' | '.join(x['E']) + "\n  effects lean: " + ' | '.join(y['E']))
        sx, sy = set(x['S']), set(y['S'])
        for l in sorted(sx - sy): diffs.append("  only go:   " + l)
        for l in sorted(sy - sx): diffs.append("  only lean: " + l)
        if diffs:
            print(f"step {i}: {x['op']}")
            print('\n'.join(diffs))
            return 1

if __name__ == '__main__':
    sys.exit(main())
