#!/bin/bash
# usage: harmless_parallel.sh <workers> "<props>" H1 H2 …   each behaviour-preserving rewrite is applied to a private copy of
# /repo and the quick checks of <props> run from a private copy of /verif; prints one line per rewrite
export GOFLAGS=-mod=mod GOPROXY=off GOSUMDB=off GOTOOLCHAIN=local
N=$1; props="$2"; shift 2
rm -f /var/tmp/hw.list.*
i=0; for id in "$@"; do echo $id >> /var/tmp/hw.list.$((i % N)); i=$((i+1)); done
for w in $(seq 0 $((N-1))); do
  [ -f /var/tmp/hw.list.$w ] || continue
  (
    W=/var/tmp/hw$w; rm -rf $W; mkdir -p $W
    rsync -a --exclude .git /verif/ $W/verif/; cp -r /repo $W/repo
    for id in $(cat /var/tmp/hw.list.$w); do
      git -C $W/repo apply /verif/seeded/harmless/$id/patch.diff || { echo "$id: patch does not apply"; continue; }
      bad=""
      for p in $props; do
        out=$(cd $W/verif && VERIF_REPO=$W/repo C18_REPO=$W/repo timeout 1500 ./check $p quick 2>&1 | grep -v '^KNOWN-FINDING')
        if echo "$out" | grep -q '^VIOLATION'; then bad="$bad $p"; echo "$id $p: $(echo "$out" | grep -B1 '^VIOLATION' | head -2 | cut -c1-300 | tr '\n' ' ')"; fi
      done
      git -C $W/repo checkout -- .
      echo "$id: alarms:${bad:- none}"
    done
    rm -rf $W /var/tmp/hw.list.$w
  ) > /var/tmp/harmless.$w.out 2>&1 &
done
wait
cat /var/tmp/harmless.*.out; echo HARMLESS-DONE
