#!/bin/bash
# usage: stage17.sh <id>…  — copy a finished sub-agent's deliverables from /tmp/r17 into seeded/<id>/ and remove its worktree
for id in "$@"; do
  S=/verif/seeded/$id; mkdir -p $S
  grep -q '_test.go' /tmp/r17/$id.patch && echo "WARNING $id: patch touches a test file"
  cp /tmp/r17/$id.patch $S/patch.diff
  cp /tmp/r17/${id}_test.go.txt $S/seeded_$(echo $id | tr A-Z a-z)_test.go.txt
  python3 - $id <<'PY'
import json,sys
id=sys.argv[1]
m=json.load(open(f'/tmp/r17/{id}.meta.json'))
m['round']=17
json.dump(m,open(f'/verif/seeded/{id}/meta.json','w'),indent=1)
PY
  git -C /repo worktree remove --force /tmp/r17/$id 2>/dev/null
  echo staged $id
done
