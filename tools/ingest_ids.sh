#!/bin/bash
# usage: ingest_ids.sh <workers> <id>:<Cxx>:<test pattern> …   the changes are already under seeded/<id>/ (patch.diff, meta.json,
# *_test.go.txt); confirms each in a fresh worktree and runs the quick check of <Cxx> on a private copy of /verif and /repo
export GOFLAGS=-mod=mod GOPROXY=off GOSUMDB=off GOTOOLCHAIN=local
N=$1; shift
rm -f /var/tmp/ingw.list.*
i=0; for e in "$@"; do echo $e >> /var/tmp/ingw.list.$((i % N)); i=$((i+1)); done
for w in $(seq 0 $((N-1))); do
  [ -f /var/tmp/ingw.list.$w ] || continue
  (
    W=/var/tmp/ingw$w; rm -rf $W; mkdir -p $W
    rsync -a --exclude .git /verif/ $W/verif/; cp -r /repo $W/repo
    for e in $(cat /var/tmp/ingw.list.$w); do
      id=${e%%:*}; rest=${e#*:}; pid=${rest%%:*}; pat=${rest#*:}
      S=/verif/seeded/$id
      dir=$(python3 -c "import json;print(json.load(open('$S/meta.json')).get('demo_dir','.'))")
      conf=$(bash /verif/tools/confirm_seeded.sh $id "$dir" "$pat" 2>&1 | tail -1)
      git -C $W/repo apply $S/patch.diff || { echo "$id PATCH-FAILED"; continue; }
      out=$(cd $W/verif && VERIF_REPO=$W/repo C18_REPO=$W/repo timeout 900 ./check $pid quick 2>&1 | grep -v '^KNOWN-FINDING')
      git -C $W/repo checkout -- .
      echo "$conf"
      echo "   $id check: $(echo "$out" | grep -B1 '^VIOLATION\|^OK' | tail -2 | cut -c1-330 | tr '\n' ' ')"
    done
    rm -rf $W /var/tmp/ingw.list.$w
  ) > /var/tmp/ingest.$w.out 2>&1 &
done
wait
cat /var/tmp/ingest.*.out; echo INGEST-DONE
