#!/bin/bash
# build everything the checks need, offline, from files on disk
set -e
cd "$(dirname "$0")"
export GOFLAGS=-mod=mod GOPROXY=off GOSUMDB=off GOTOOLCHAIN=local
cp /repo/go.sum harness/go.sum
( cd harness && go build -tags verif -o bin/trace ./cmd/trace && if [ -d cmd/factgen ]; then go build -o bin/factgen ./cmd/factgen; fi )
( cd lean && lake build driver ServiceModel )
echo setup done
